// C06 — eigen-decomposition satisfies A.V = V.D for every real square matrix.
// Laws of DESIGN.md section 5/C06.
//
// Conventions (frozen):
//   eps      = 2^-52 (DBL_EPSILON), c = CTOL = 100
//   ||.||_1  = maximal absolute column sum, ||.||_max = maximal absolute entry
//   khat     = ||V||_1 ||V^-1||_1 of the eigenvector matrix returned by the library, V^-1 by my own long double
//              Gauss-Jordan (infinite when a pivot vanishes)
//   All references are computed in long double (or exact integers) from the definition.
#include "common/pbt.hpp"
#include "common/bppcommon.hpp"

#include <Bpp/Numeric/Matrix/EigenValue.h>
#include <Bpp/Numeric/Matrix/Matrix.h>
#include <Bpp/Numeric/Matrix/MatrixTools.h>

#include <complex>
#include <memory>


// ------------------------------------------------------------------ termination monitor
// A second textual copy of the library's own EigenValue.h is compiled under another class name with one hook injected
// at the head of every step of the double-QR sweep of hqr2 (through the identifier `notlast`, declared there). The hook
// sees the condition under which the library leaves the sweep without doing anything (first step of the sweep and
// x == 0.0, x being the shift H(n,n) at that point). 32 consecutive iterations left this way with a bit-identical H
// prove non-termination: the two ad-hoc shifts (iterations 10 and 30) are behind and nothing can change any more.
// The monitor is not an oracle; it converts an endless loop into an ordinary failing case (usable in ENUM laws too).
namespace c06probe {
struct Stall {}; struct NoConvergence {};
static long consecutive = 0, total = 0; static uint64_t lastH = 0;
inline void reset() { consecutive = 0; total = 0; lastH = 0; }
template <class M> inline int hook(bool sweepSkipped, const M& H) {
  if (++total > 4000000) throw NoConvergence();
  if (!sweepSkipped) { consecutive = 0; return 0; }
  uint64_t h = 1469598103934665603ULL;  // the skipped iterations must really leave H bit-identical
  for (size_t i = 0; i < H.getNumberOfRows(); ++i) for (size_t j = 0; j < H.getNumberOfColumns(); ++j) { double v = H(i, j); h = ::vf::fnv1a(&v, sizeof v, h); }
  if (consecutive > 0 && h != lastH) consecutive = 0;
  lastH = h;
  if (++consecutive >= 32) throw Stall();
  return 1;
}
}  // namespace c06probe
#undef BPP_NUMERIC_MATRIX_EIGENVALUE_H
#define EigenValue C06ProbedEigenValue
#define notlast c06_hook_ = ::c06probe::hook(k == m && x == 0.0, H_), c06_notlast_
#include <Bpp/Numeric/Matrix/EigenValue.h>
#undef notlast
#undef EigenValue

using namespace bpp;
using namespace std;

namespace {

typedef long double LD;
typedef vector<vector<double>> Mat;
typedef vector<vector<LD>> LMat;
typedef vector<vector<long long>> IMat;
typedef complex<LD> Cx;

const double EPS = DBL_EPSILON;
const double CTOL = 100.0;
const LD KAPPA_SKIP = 1e8L;

// ------------------------------------------------------------------ small dense helpers (reference side)
Mat zeros(int n) { return Mat(static_cast<size_t>(n), vector<double>(static_cast<size_t>(n), 0.0)); }
LMat lzeros(size_t n) { return LMat(n, vector<LD>(n, 0.0L)); }
LMat lid(size_t n) { LMat I = lzeros(n); for (size_t i = 0; i < n; ++i) I[i][i] = 1; return I; }
template <class M> LMat toLD(const M& A) {
  size_t n = A.size(); LMat R = lzeros(n);
  for (size_t i = 0; i < n; ++i) for (size_t j = 0; j < n; ++j) R[i][j] = static_cast<LD>(A[i][j]);
  return R;
}
LMat mulLD(const LMat& A, const LMat& B) {
  size_t n = A.size(); LMat R = lzeros(n);
  for (size_t i = 0; i < n; ++i) for (size_t k = 0; k < n; ++k) { LD a = A[i][k]; if (a == 0) continue; for (size_t j = 0; j < n; ++j) R[i][j] += a * B[k][j]; }
  return R;
}
template <class M> LD norm1(const M& A) {
  LD best = 0; size_t n = A.size();
  for (size_t j = 0; j < n; ++j) { LD s = 0; for (size_t i = 0; i < n; ++i) s += fabsl(static_cast<LD>(A[i][j])); if (s > best) best = s; }
  return best;
}
template <class M> LD normMax(const M& A) {
  LD best = 0; for (auto& r : A) for (auto x : r) if (fabsl(static_cast<LD>(x)) > best) best = fabsl(static_cast<LD>(x));
  return best;
}
LD maxDiff(const LMat& A, const LMat& B) {
  LD best = 0; size_t n = A.size();
  for (size_t i = 0; i < n; ++i) for (size_t j = 0; j < n; ++j) { LD d = fabsl(A[i][j] - B[i][j]); if (!(d <= best)) best = d; }
  return best;
}
// Gauss-Jordan with partial pivoting in long double; false when a pivot is zero / not finite.
bool invertLD(LMat M, LMat& Inv) {
  size_t n = M.size(); Inv = lid(n);
  for (size_t k = 0; k < n; ++k) {
    size_t p = k; for (size_t i = k + 1; i < n; ++i) if (fabsl(M[i][k]) > fabsl(M[p][k])) p = i;
    if (!(fabsl(M[p][k]) > 0) || !std::isfinite(static_cast<double>(M[p][k]))) return false;
    swap(M[p], M[k]); swap(Inv[p], Inv[k]);
    LD piv = M[k][k];
    for (size_t j = 0; j < n; ++j) { M[k][j] /= piv; Inv[k][j] /= piv; }
    for (size_t i = 0; i < n; ++i) {
      if (i == k) continue; LD f = M[i][k]; if (f == 0) continue;
      for (size_t j = 0; j < n; ++j) { M[i][j] -= f * M[k][j]; Inv[i][j] -= f * Inv[k][j]; }
    }
  }
  for (auto& r : Inv) for (LD x : r) if (!std::isfinite(static_cast<double>(x))) return false;
  return true;
}
// determinant by elimination with partial pivoting in long double
LD detLD(LMat M) {
  size_t n = M.size(); LD det = 1;
  for (size_t k = 0; k < n; ++k) {
    size_t p = k; for (size_t i = k + 1; i < n; ++i) if (fabsl(M[i][k]) > fabsl(M[p][k])) p = i;
    if (M[p][k] == 0) return 0;
    if (p != k) { swap(M[p], M[k]); det = -det; }
    det *= M[k][k];
    for (size_t i = k + 1; i < n; ++i) { LD f = M[i][k] / M[k][k]; if (f == 0) continue; for (size_t j = k; j < n; ++j) M[i][j] -= f * M[k][j]; }
  }
  return det;
}
bool exactlySymmetric(const Mat& A) {
  for (size_t i = 0; i < A.size(); ++i) for (size_t j = 0; j < i; ++j) if (A[i][j] != A[j][i]) return false;
  return true;
}
// bottleneck distance of the best perfect matching between two multisets of complex numbers (Kuhn + binary search)
bool kuhnTry(size_t u, const vector<vector<char>>& adj, vector<int>& matchR, vector<char>& seen) {
  for (size_t v = 0; v < adj.size(); ++v) {
    if (!adj[u][v] || seen[v]) continue; seen[v] = 1;
    if (matchR[v] < 0 || kuhnTry(static_cast<size_t>(matchR[v]), adj, matchR, seen)) { matchR[v] = static_cast<int>(u); return true; }
  }
  return false;
}
LD bottleneck(const vector<Cx>& a, const vector<Cx>& b) {
  size_t n = a.size(); vector<LD> ds;
  for (auto& x : a) for (auto& y : b) ds.push_back(abs(x - y));
  sort(ds.begin(), ds.end());
  size_t lo = 0, hi = ds.size() - 1;
  auto feasible = [&](LD r) {
    vector<vector<char>> adj(n, vector<char>(n, 0));
    for (size_t i = 0; i < n; ++i) for (size_t j = 0; j < n; ++j) adj[i][j] = abs(a[i] - b[j]) <= r;
    vector<int> matchR(n, -1);
    for (size_t u = 0; u < n; ++u) { vector<char> seen(n, 0); if (!kuhnTry(u, adj, matchR, seen)) return false; }
    return true;
  };
  while (lo < hi) { size_t mid = (lo + hi) / 2; if (feasible(ds[mid])) hi = mid; else lo = mid + 1; }
  return ds[lo];
}

string num(double x) {
  if (std::isfinite(x) && std::fabs(x) < 1e15 && x == std::floor(x)) { char b[32]; snprintf(b, sizeof b, "%lld", static_cast<long long>(x)); return b; }
  return vf::dec(x);
}
string showMat(const Mat& A) {
  string s = "[";
  for (size_t i = 0; i < A.size(); ++i) { s += i ? ";" : ""; for (size_t j = 0; j < A.size(); ++j) { s += j ? " " : ""; s += num(A[i][j]); } }
  return s + "]";
}
const char* STORAGE[] = {"RowMatrix", "ColMatrix", "LinearMatrix"};
unique_ptr<Matrix<double>> store(const Mat& A, int st) {
  size_t n = A.size(); unique_ptr<Matrix<double>> M;
  if (st == 0) M.reset(new RowMatrix<double>(n, n)); else if (st == 1) M.reset(new ColMatrix<double>(n, n)); else M.reset(new LinearMatrix<double>(n, n));
  for (size_t i = 0; i < n; ++i) for (size_t j = 0; j < n; ++j) (*M)(i, j) = A[i][j];
  return M;
}
unique_ptr<Matrix<double>> emptyOut(int st) {
  unique_ptr<Matrix<double>> M;
  if (st == 0) M.reset(new RowMatrix<double>()); else if (st == 1) M.reset(new ColMatrix<double>()); else M.reset(new LinearMatrix<double>());
  return M;
}
Mat fromLib(const Matrix<double>& M) {
  size_t n = M.getNumberOfRows(); Mat A(n, vector<double>(M.getNumberOfColumns()));
  for (size_t i = 0; i < n; ++i) for (size_t j = 0; j < M.getNumberOfColumns(); ++j) A[i][j] = M(i, j);
  return A;
}

// ------------------------------------------------------------------ the case
struct Case {
  int n = 1; Mat A; string kind; int storage = 0;
  bool graded = false, repeated = false, jordan = false;
  bool specKnown = false; vector<Cx> spec;  // exact spectrum of A (as stored in double), when known by construction
  // A = S B S^-1 with B real diagonal, S and S^-1 known exactly (exp/pow laws)
  bool realDiag = false; double kappaS = 0; IMat A8; int den = 8;  // A = A8/den exactly
  LMat S, Sinv; vector<LD> lambda;
};

double genEntry(vf::Ctx& c, int mode) {
  switch (mode) {
    case 0: return static_cast<double>(c.zig(9));
    case 1: return c.real(-1, 1);
    default: { double m = c.logu(1e-3, 1e3); return c.flag() ? -m : m; }
  }
}
void markRepeated(Case& cs) {
  for (size_t i = 0; i < cs.spec.size(); ++i) for (size_t j = 0; j < i; ++j) if (cs.spec[i] == cs.spec[j]) cs.repeated = true;
}

void genDense(vf::Ctx& c, Case& cs) {
  int mode = static_cast<int>(c.weighted({3, 3, 1})); cs.kind = string("dense/") + (mode == 0 ? "int" : mode == 1 ? "unit" : "log");
  int n = cs.n; cs.A = zeros(n);
  for (int i = 0; i < n; ++i) for (int j = 0; j < n; ++j) cs.A[i][j] = genEntry(c, mode);
}
void genSymmetricDense(vf::Ctx& c, Case& cs) {
  int mode = static_cast<int>(c.weighted({3, 3, 1})); cs.kind = string("symmetric/") + (mode == 0 ? "int" : mode == 1 ? "unit" : "log");
  int n = cs.n; cs.A = zeros(n);
  for (int i = 0; i < n; ++i) for (int j = 0; j <= i; ++j) cs.A[i][j] = cs.A[j][i] = genEntry(c, mode);
}
// break the symmetry of a symmetric matrix in one cell (favouring the last row / column)
void breakSymmetry(vf::Ctx& c, Case& cs) {
  int n = cs.n; if (n < 2) return;
  int i, j;
  switch (c.below(3)) {
    case 0: i = n - 1; j = c.irange(0, n - 2); break;
    case 1: j = n - 1; i = c.irange(0, n - 2); break;
    default: i = c.irange(0, n - 1); j = c.irange(0, n - 2); if (j >= i) ++j;
  }
  double delta = c.flag() ? 1.0 : c.pick({0.5, 1e-3, 1e-9});
  double old = cs.A[i][j]; cs.A[i][j] = old + delta * (old == 0 ? 1.0 : std::fabs(old));
  if (cs.A[i][j] == cs.A[j][i]) cs.A[i][j] = old + 1.0;
  cs.kind += "+broken(" + to_string(i) + "," + to_string(j) + ")"; cs.specKnown = false;
}
void genTriangular(vf::Ctx& c, Case& cs) {
  bool upper = c.flag(); int mode = static_cast<int>(c.weighted({3, 3, 1})); bool distinct = !c.oneIn(4);
  cs.kind = string("triangular/") + (upper ? "upper/" : "lower/") + (mode == 0 ? "int" : mode == 1 ? "unit" : "log");
  int n = cs.n; cs.A = zeros(n);
  for (int i = 0; i < n; ++i) for (int j = 0; j < n; ++j) if (upper ? j >= i : j <= i) cs.A[i][j] = genEntry(c, mode);
  if (distinct && mode == 0) for (int i = 0; i < n; ++i) cs.A[i][i] = static_cast<double>((i % 2 ? 1 : -1) * ((i + 1) / 2));  // 0,1,-1,2,-2,...
  cs.specKnown = true; for (int i = 0; i < n; ++i) cs.spec.push_back(Cx(cs.A[i][i], 0));
  markRepeated(cs);
}
// companion matrix of prod (x - k_i/2) prod (x^2 - a x + (a^2+b^2)/4): exact dyadic coefficients
void genCompanion(vf::Ctx& c, Case& cs) {
  int n = cs.n; int form = static_cast<int>(c.below(4)); bool distinct = !c.oneIn(5);
  // polynomial in y = 2x with integer coefficients, low to high
  vector<__int128> p(1, 1); int left = n; set<pair<int, int>> used;
  auto mulLin = [&](int k) { vector<__int128> q(p.size() + 1, 0); for (size_t i = 0; i < p.size(); ++i) { q[i + 1] += p[i]; q[i] -= p[i] * k; } p = q; };
  auto mulQuad = [&](int a, int b) { vector<__int128> q(p.size() + 2, 0); for (size_t i = 0; i < p.size(); ++i) { q[i + 2] += p[i]; q[i + 1] -= p[i] * 2 * a; q[i] += p[i] * (a * a + b * b); } p = q; };
  int pairs = 0;
  while (left > 0) {
    bool cplx = left >= 2 && c.weighted({3, 2}) == 1;
    if (cplx) {
      int a = static_cast<int>(c.zig(6)), b = c.irange(1, 6);
      for (int t = 0; distinct && used.count({a, b}) && t < 40; ++t) { a = a >= 6 ? -6 : a + 1; if (t % 13 == 12) b = b % 6 + 1; }
      used.insert({a, b}); mulQuad(a, b); left -= 2; ++pairs;
      cs.spec.push_back(Cx(a / 2.0L, b / 2.0L)); cs.spec.push_back(Cx(a / 2.0L, -b / 2.0L));
    } else {
      int k = static_cast<int>(c.zig(8));
      for (int t = 0; distinct && used.count({k, 0}) && t < 40; ++t) k = k >= 8 ? -8 : k + 1;
      used.insert({k, 0}); mulLin(k); --left; cs.spec.push_back(Cx(k / 2.0L, 0));
    }
  }
  // monic coefficients in x: a_j = p_j 2^(j-n)
  vector<double> a(static_cast<size_t>(n));
  for (int j = 0; j < n; ++j) { LD v = static_cast<LD>(p[static_cast<size_t>(j)]); a[static_cast<size_t>(j)] = static_cast<double>(ldexpl(v, j - n)); if (static_cast<LD>(a[static_cast<size_t>(j)]) != ldexpl(v, j - n)) throw vf::Skip(); }
  cs.A = zeros(n);
  // form 0: first row, 1: last column, 2: last row, 3: first column
  for (int i = 0; i + 1 < n; ++i) { if (form == 0 || form == 1) cs.A[i + 1][i] = 1; else cs.A[i][i + 1] = 1; }
  for (int j = 0; j < n; ++j) {
    double coef = -a[static_cast<size_t>(j)];
    switch (form) {
      case 0: cs.A[0][n - 1 - j] = coef; break;   // x^n = -sum a_j x^j, first row holds -a_{n-1}..-a_0
      case 1: cs.A[j][n - 1] = coef; break;
      case 2: cs.A[n - 1][j] = coef; break;
      default: cs.A[n - 1 - j][0] = coef; break;
    }
  }
  cs.kind = "companion/form" + to_string(form) + "/pairs" + to_string(pairs);
  cs.specKnown = true; markRepeated(cs); if (cs.repeated) cs.jordan = true;  // companion matrices are non-derogatory
}
// block-triangular [D X; 0 C] (or its transpose / the blocks in the other order): D a small leading integer block, C the companion
// matrix of prod (x - r_i)^m_i with one to three small integer roots of multiplicity >= 2. A strongly defective, clustered real
// spectrum: the QR sweeps on the companion block stall (exceptional shifts at sweep 10 and 30) while other rows are still undeflated.
void genClustered(vf::Ctx& c, Case& cs) {
  int n = cs.n;
  int lead = n >= 4 ? c.irange(0, std::min(3, n - 3)) : 0, m = n - lead;
  vector<__int128> p(1, 1); int left = m; string roots;
  while (left > 0) {
    int r = static_cast<int>(c.zig(2)), mult = std::min(left, c.irange(2, 6));
    for (int t = 0; t < mult; ++t) { vector<__int128> q(p.size() + 1, 0); for (size_t i = 0; i < p.size(); ++i) { q[i + 1] += p[i]; q[i] -= p[i] * r; } p = q; }
    left -= mult; roots += "(" + to_string(r) + ")^" + to_string(mult);
  }
  Mat C = zeros(m); int form = static_cast<int>(c.below(4));
  for (int i = 0; i + 1 < m; ++i) { if (form == 0 || form == 1) C[i + 1][i] = 1; else C[i][i + 1] = 1; }
  for (int j = 0; j < m; ++j) {
    double coef = -static_cast<double>(static_cast<long long>(p[static_cast<size_t>(j)]));
    switch (form) { case 0: C[0][m - 1 - j] = coef; break; case 1: C[j][m - 1] = coef; break; case 2: C[m - 1][j] = coef; break; default: C[m - 1 - j][0] = coef; }
  }
  cs.A = zeros(n);
  bool clusterFirst = c.flag(), coupled = c.flag(), lower = c.flag(), diagLead = c.flag();
  int oc = clusterFirst ? 0 : lead, od = clusterFirst ? m : 0;
  for (int i = 0; i < m; ++i) for (int j = 0; j < m; ++j) cs.A[oc + i][oc + j] = C[i][j];
  for (int i = 0; i < lead; ++i) for (int j = 0; j < lead; ++j) if (!diagLead || i == j) cs.A[od + i][od + j] = static_cast<double>(c.zig(5));
  if (coupled && lead > 0) {
    // the off-diagonal block that keeps the matrix block triangular: rows of the first block x columns of the second (upper) or the reverse (lower)
    int r0 = lower ? std::max(oc, od) : std::min(oc, od), c0 = lower ? std::min(oc, od) : std::max(oc, od);
    int nr = (r0 == oc) ? m : lead, nc = (c0 == oc) ? m : lead;
    for (int i = 0; i < nr; ++i) for (int j = 0; j < nc; ++j) if (c.oneIn(2)) cs.A[r0 + i][c0 + j] = static_cast<double>(c.zig(2));
  }
  cs.kind = "clustered/" + roots + "/form" + to_string(form) + "/lead" + to_string(lead) + (coupled ? (lower ? "/lower" : "/upper") : "/blockdiag") + (clusterFirst ? "/first" : "/last");
  cs.repeated = true; cs.jordan = true;
}
// cyclic shift with corner +-1: companion of x^n -+ 1 (roots of unity; needs the exceptional shifts)
void genCyclic(vf::Ctx& c, Case& cs) {
  int n = cs.n; bool neg = c.flag(); bool transposed = c.flag();
  cs.A = zeros(n);
  for (int i = 0; i + 1 < n; ++i) { if (transposed) cs.A[i][i + 1] = 1; else cs.A[i + 1][i] = 1; }
  if (transposed) cs.A[n - 1][0] += neg ? -1 : 1; else cs.A[0][n - 1] += neg ? -1 : 1;
  cs.kind = string("companion/cyclic") + (neg ? "(x^n+1)" : "(x^n-1)") + (transposed ? "/t" : "");
  const LD PI = acosl(-1.0L);
  for (int k = 0; k < n; ++k) { LD th = (neg ? (2 * k + 1) : 2 * k) * PI / n; cs.spec.push_back(Cx(cosl(th), sinl(th))); }
  if (n == 1) { cs.spec.clear(); cs.spec.push_back(Cx(cs.A[0][0], 0)); }
  cs.specKnown = true;
}

// A = S B S^-1 with integer unimodular S (product of shears), B block diagonal with entries that are multiples of 1/8:
// real 1x1 blocks, rotation-scaling blocks [a b; -b a], Jordan blocks. A is exact.
void genSpectral(vf::Ctx& c, Case& cs, bool allowComplex, bool allowJordan, int lamMax8, double kappaMax) {
  int n = cs.n; bool dyadic = c.flag(); bool wantRepeat = c.oneIn(3);
  IMat B8(static_cast<size_t>(n), vector<long long>(static_cast<size_t>(n), 0));
  auto genLam = [&]() -> long long { return dyadic ? c.zig(lamMax8) : 8 * c.zig(lamMax8 / 8); };
  int pos = 0, pairs = 0; vector<long long> reals; string blocks;
  while (pos < n) {
    int room = n - pos;
    size_t what = c.weighted({5, static_cast<unsigned>(allowComplex && room >= 2 ? 3 : 0), static_cast<unsigned>(allowJordan && room >= 2 ? 1 : 0)});
    if (what == 1) {
      long long a = genLam(), b = genLam(); if (b == 0) b = dyadic ? 1 : 8;
      B8[pos][pos] = a; B8[pos + 1][pos + 1] = a; B8[pos][pos + 1] = b; B8[pos + 1][pos] = -b;
      cs.spec.push_back(Cx(a / 8.0L, b / 8.0L)); cs.spec.push_back(Cx(a / 8.0L, -b / 8.0L));
      blocks += " rot(" + num(a / 8.0) + "," + num(b / 8.0) + ")"; pos += 2; ++pairs;
    } else if (what == 2) {
      int sz = room >= 3 && c.flag() ? 3 : 2; long long l = genLam();
      for (int k = 0; k < sz; ++k) { B8[pos + k][pos + k] = l; if (k + 1 < sz) B8[pos + k][pos + k + 1] = 8; cs.spec.push_back(Cx(l / 8.0L, 0)); }
      blocks += " jordan" + to_string(sz) + "(" + num(l / 8.0) + ")"; pos += sz; cs.jordan = true;
    } else {
      long long l = (wantRepeat && !reals.empty() && c.flag()) ? reals[c.below(reals.size())] : genLam();
      reals.push_back(l); B8[pos][pos] = l; cs.spec.push_back(Cx(l / 8.0L, 0)); cs.lambda.push_back(l / 8.0L);
      blocks += " " + num(l / 8.0); ++pos;
    }
  }
  // unimodular S
  IMat S(static_cast<size_t>(n), vector<long long>(static_cast<size_t>(n), 0)), Si = S;
  for (int i = 0; i < n; ++i) S[i][i] = Si[i][i] = 1;
  int nshear = n >= 2 ? c.irange(0, 3 * n) : 0, done = 0;
  for (int k = 0; k < nshear; ++k) {
    int i = c.irange(0, n - 1), j = c.irange(0, n - 2); if (j >= i) ++j;
    long long t = c.pick({1LL, -1LL, 2LL, -2LL});
    IMat S2 = S, Si2 = Si;
    for (int r = 0; r < n; ++r) S2[r][j] += t * S2[r][i];     // S <- S (I + t e_i e_j^T)
    for (int q = 0; q < n; ++q) Si2[i][q] -= t * Si2[j][q];   // S^-1 <- (I - t e_i e_j^T) S^-1
    if (static_cast<double>(norm1(S2) * norm1(Si2)) > kappaMax) break;
    S = S2; Si = Si2; ++done;
  }
  // A8 = S B8 S^-1 exactly
  IMat T(static_cast<size_t>(n), vector<long long>(static_cast<size_t>(n), 0)), A8 = T;
  for (int i = 0; i < n; ++i) for (int k = 0; k < n; ++k) for (int j = 0; j < n; ++j) T[i][j] += S[i][k] * B8[k][j];
  for (int i = 0; i < n; ++i) for (int k = 0; k < n; ++k) for (int j = 0; j < n; ++j) A8[i][j] += T[i][k] * Si[k][j];
  cs.A = zeros(n);
  for (int i = 0; i < n; ++i) for (int j = 0; j < n; ++j) cs.A[i][j] = static_cast<double>(A8[i][j]) / 8.0;
  // internal: the inverse is exact
  for (int i = 0; i < n; ++i) for (int j = 0; j < n; ++j) { long long s = 0; for (int k = 0; k < n; ++k) s += S[i][k] * Si[k][j]; CHECK(s == (i == j), "internal: S S^-1 != I in the generator"); }
  cs.A8 = A8; cs.den = 8; cs.S = toLD(S); cs.Sinv = toLD(Si); cs.kappaS = static_cast<double>(norm1(S) * norm1(Si));
  cs.realDiag = pairs == 0 && !cs.jordan; cs.specKnown = true; markRepeated(cs);
  cs.kind = string("spectral/") + (pairs ? "rotation" : cs.jordan ? "jordan" : cs.repeated ? "repeated" : "real") + "/blocks{" + blocks + " }/shears" + to_string(done) + "/kappaS" + num(cs.kappaS);
}
void genGraded(vf::Ctx& c, Case& cs) {
  int n = cs.n; int mode = c.flag() ? 1 : 0; int a = c.irange(0, 3), b = static_cast<int>(c.zig(3));
  if (a == 0 && b == 0) a = 3;
  cs.kind = "graded/rows1e" + to_string(a) + "/cols1e" + to_string(b) + (mode ? "/unit" : "/int"); cs.graded = n >= 2;
  cs.A = zeros(n);
  for (int i = 0; i < n; ++i) for (int j = 0; j < n; ++j) {
    double r = mode ? c.real(-1, 1) : static_cast<double>(c.zig(9));
    double si = n > 1 ? std::pow(10.0, a * (2.0 * i / (n - 1) - 1)) : 1.0, tj = n > 1 ? std::pow(10.0, b * (2.0 * j / (n - 1) - 1)) : 1.0;
    cs.A[i][j] = r * si * tj;
  }
}
void genSpecial(vf::Ctx& c, Case& cs) {
  int n = cs.n; cs.A = zeros(n);
  switch (c.below(4)) {
    case 0: cs.kind = "zero"; for (int i = 0; i < n; ++i) cs.spec.push_back(Cx(0, 0)); break;
    case 1: cs.kind = "identity"; for (int i = 0; i < n; ++i) { cs.A[i][i] = 1; cs.spec.push_back(Cx(1, 0)); } break;
    case 2: { double s = c.flag() ? static_cast<double>(c.zig(9)) : c.real(-1e3, 1e3); cs.kind = "scalar"; for (int i = 0; i < n; ++i) { cs.A[i][i] = s; cs.spec.push_back(Cx(s, 0)); } break; }
    default: {
      cs.kind = "rank-one"; vector<double> u(static_cast<size_t>(n)), v(static_cast<size_t>(n)); double dot = 0;
      for (int i = 0; i < n; ++i) { u[i] = static_cast<double>(c.zig(5)); v[i] = static_cast<double>(c.zig(5)); dot += u[i] * v[i]; }
      for (int i = 0; i < n; ++i) for (int j = 0; j < n; ++j) cs.A[i][j] = u[i] * v[j];
      cs.spec.push_back(Cx(dot, 0)); for (int i = 1; i < n; ++i) cs.spec.push_back(Cx(0, 0));
      if (dot == 0 && normMax(cs.A) > 0) cs.jordan = true;  // nilpotent, defective
    }
  }
  cs.specKnown = true; markRepeated(cs);
}
void scalePow2(vf::Ctx& c, Case& cs) {
  int k = static_cast<int>(c.zig(20)); if (k == 0) return;
  for (auto& r : cs.A) for (double& x : r) x = std::ldexp(x, k);
  for (auto& z : cs.spec) z = Cx(ldexpl(z.real(), k), ldexpl(z.imag(), k));
  cs.kind += "*2^" + to_string(k); cs.realDiag = false;  // A8 no longer describes A
}

// special symmetric structures (law L2)
void genSymmetricStructured(vf::Ctx& c, Case& cs) {
  int n = cs.n; cs.A = zeros(n);
  switch (c.below(7)) {
    case 0: {  // diagonal, unsorted
      cs.kind = "symmetric/diagonal"; bool integer = c.flag();
      for (int i = 0; i < n; ++i) { cs.A[i][i] = integer ? static_cast<double>(c.zig(9)) : c.real(-10, 10); cs.spec.push_back(Cx(cs.A[i][i], 0)); }
      cs.specKnown = true; markRepeated(cs); break; }
    case 1: {  // tridiagonal / Wilkinson W+
      bool wilk = c.flag(); cs.kind = wilk ? "symmetric/wilkinson" : "symmetric/tridiagonal";
      for (int i = 0; i < n; ++i) { cs.A[i][i] = wilk ? std::fabs(i - (n - 1) / 2.0) : static_cast<double>(c.zig(9)); if (i + 1 < n) cs.A[i][i + 1] = cs.A[i + 1][i] = wilk ? 1.0 : static_cast<double>(c.zig(9)); }
      break; }
    case 2: {  // M M^T with M n x k: semi-definite, zero eigenvalue of multiplicity n-k
      int k = c.irange(1, n); cs.kind = "symmetric/gram(rank<=" + to_string(k) + ")"; cs.repeated = n - k >= 2;
      vector<vector<double>> M(static_cast<size_t>(n), vector<double>(static_cast<size_t>(k)));
      for (auto& r : M) for (double& x : r) x = static_cast<double>(c.zig(5));
      for (int i = 0; i < n; ++i) for (int j = 0; j < n; ++j) { double s = 0; for (int q = 0; q < k; ++q) s += M[i][q] * M[j][q]; cs.A[i][j] = s; }
      break; }
    case 3: {  // direct sum of two symmetric blocks
      int k = c.irange(0, n); cs.kind = "symmetric/directsum(" + to_string(k) + "+" + to_string(n - k) + ")";
      for (int i = 0; i < n; ++i) for (int j = 0; j <= i; ++j) if ((i < k) == (j < k)) cs.A[i][j] = cs.A[j][i] = static_cast<double>(c.zig(9));
      break; }
    case 4: {  // graded symmetric s_i s_j r_ij
      int a = c.irange(1, 3); cs.kind = "symmetric/graded1e" + to_string(a); cs.graded = n >= 2;
      for (int i = 0; i < n; ++i) for (int j = 0; j <= i; ++j) {
        double si = n > 1 ? std::pow(10.0, a * (2.0 * i / (n - 1) - 1)) : 1.0, sj = n > 1 ? std::pow(10.0, a * (2.0 * j / (n - 1) - 1)) : 1.0;
        double v = c.real(-1, 1) * si * sj; cs.A[i][j] = cs.A[j][i] = v;
      }
      break; }
    case 5: {  // a I + b 1 1^T : eigenvalue a with multiplicity n-1
      double a = static_cast<double>(c.zig(9)), b = static_cast<double>(c.zig(9)); cs.kind = "symmetric/aI+b11^T";
      for (int i = 0; i < n; ++i) for (int j = 0; j < n; ++j) cs.A[i][j] = b + (i == j ? a : 0);
      for (int i = 0; i + 1 < n; ++i) cs.spec.push_back(Cx(a, 0)); cs.spec.push_back(Cx(a + n * b, 0)); cs.specKnown = true; markRepeated(cs);
      break; }
    default: genSymmetricDense(c, cs);
  }
}


// Throws Skip (known finding) or fails when the library's decomposition of M would never return.
void guardTermination(vf::Ctx& c, const Matrix<double>& M) {
  c06probe::reset();
  try { bpp::C06ProbedEigenValue<double> probe(M); }
  catch (c06probe::Stall&) {
    c.excludeIfKnown("C06-hqr2-zero-shift-stall");
    CHECK(false, "EigenValue never returns: hqr2 leaves the QR sweep untouched because the shift H(n,n) is exactly 0 (`if (x == 0.0) break;` at the first step of the sweep), 32 consecutive iterations without any change of H");
  }
  catch (c06probe::NoConvergence&) { CHECK(false, "EigenValue: hqr2 made 4e6 QR steps without converging (no iteration limit in the library)"); }
}

// ------------------------------------------------------------------ the oracle of laws L1, L2, L6
struct Outcome { LD khat = 0; bool sym = false; int pairs = 0; };

Outcome checkDecomposition(vf::Ctx& c, const Case& cs) {
  const size_t n = static_cast<size_t>(cs.n); const Mat& A = cs.A; Outcome out;
  for (auto& r : A) for (double x : r) CHECK(std::isfinite(x), "internal: generator produced a non-finite entry");
  unique_ptr<Matrix<double>> M = store(A, cs.storage);
  guardTermination(c, *M);
  EigenValue<double> ev(*M);
  for (size_t i = 0; i < n; ++i) for (size_t j = 0; j < n; ++j) CHECK(vf::sameBits((*M)(i, j), A[i][j]), "the input matrix was modified at (" << i << "," << j << ")");
  const vector<double>& d = ev.getRealEigenValues(); const vector<double>& e = ev.getImagEigenValues();
  const RowMatrix<double>& Vl = ev.getV(); const RowMatrix<double>& Dl = ev.getD();
  CHECK(d.size() == n && e.size() == n, "eigenvalue lists have sizes " << d.size() << "," << e.size() << " for n=" << n);
  CHECK(Vl.getNumberOfRows() == n && Vl.getNumberOfColumns() == n && Dl.getNumberOfRows() == n && Dl.getNumberOfColumns() == n, "V or D is not n x n");
  Mat V = fromLib(Vl), D = fromLib(Dl);
  for (size_t i = 0; i < n; ++i) {
    CHECK(std::isfinite(d[i]) && std::isfinite(e[i]), "eigenvalue " << i << " is not finite: " << d[i] << " + i " << e[i]);
    for (size_t j = 0; j < n; ++j) CHECK(std::isfinite(V[i][j]) && std::isfinite(D[i][j]), "V or D has a non-finite entry at (" << i << "," << j << "): V=" << V[i][j] << " D=" << D[i][j]);
  }
  const LD nA = norm1(A), nV = norm1(V);

  // (a) D is block diagonal and consistent with (d,e)
  {
    Mat E = zeros(cs.n);
    for (size_t i = 0; i < n; ++i) {
      E[i][i] = d[i];
      if (e[i] > 0) {
        CHECK(i + 1 < n, "e[" << i << "]>0 in the last position: a complex eigenvalue without its conjugate");
        CHECK(e[i + 1] == -e[i] && d[i + 1] == d[i], "complex eigenvalue " << i << " (" << vf::dec(d[i]) << "+i" << vf::dec(e[i]) << ") is not followed by its conjugate but by " << vf::dec(d[i + 1]) << "+i" << vf::dec(e[i + 1]));
        E[i][i + 1] = e[i]; E[i + 1][i] = -e[i]; E[i + 1][i + 1] = d[i]; ++out.pairs; ++i;
      } else CHECK(e[i] == 0, "e[" << i << "]=" << vf::dec(e[i]) << " is negative without a preceding positive partner");
    }
    for (size_t i = 0; i < n; ++i) for (size_t j = 0; j < n; ++j)
      CHECK(D[i][j] == E[i][j], "D(" << i << "," << j << ")=" << vf::dec(D[i][j]) << " but the (d,e) lists give " << vf::dec(E[i][j]) << " (blocks [a b; -b a])");
  }

  // (b) residual  ||A V - V D||_max <= c n eps ||A||_1 ||V||_1
  LMat AL = toLD(A), VL = toLD(V), DL = toLD(D);
  LD resid = maxDiff(mulLD(AL, VL), mulLD(VL, DL));
  LD bound = CTOL * n * EPS * nA * nV;
  if (nA * nV > 0) c.observe("residual/(n eps |A|_1 |V|_1)", static_cast<double>(resid / (n * EPS * nA * nV)));
  CHECK(resid <= bound, "||A V - V D||_max = " << static_cast<double>(resid) << " exceeds 100 n eps ||A||_1 ||V||_1 = " << static_cast<double>(bound) << " (ratio to n eps |A||V|: " << static_cast<double>(resid / (n * EPS * nA * nV)) << ")");

  // (c) symmetric input
  out.sym = exactlySymmetric(A);
  CHECK(ev.isSymmetric() == out.sym, "isSymmetric()=" << ev.isSymmetric() << " but the matrix is " << (out.sym ? "" : "not ") << "symmetric");
  if (out.sym) {
    for (size_t i = 0; i < n; ++i) CHECK(e[i] == 0, "symmetric input with imaginary part e[" << i << "]=" << vf::dec(e[i]));
    for (size_t i = 0; i + 1 < n; ++i) CHECK(d[i] <= d[i + 1], "symmetric input: eigenvalues not ascending: d[" << i << "]=" << vf::dec(d[i]) << " > d[" << i + 1 << "]=" << vf::dec(d[i + 1]));
    LD worst = 0;
    for (size_t i = 0; i < n; ++i) for (size_t j = 0; j < n; ++j) { LD s = 0; for (size_t k = 0; k < n; ++k) s += VL[k][i] * VL[k][j]; LD dv = fabsl(s - (i == j ? 1 : 0)); if (!(dv <= worst)) worst = dv; }
    c.observe("orthonormality/(n eps)", static_cast<double>(worst / (n * EPS)));
    CHECK(worst <= CTOL * n * EPS, "symmetric input: ||V^T V - I||_max = " << static_cast<double>(worst) << " exceeds 100 n eps");
  }

  // (d) conditioning of the returned eigenvector basis
  LMat Vinv; LD khat = INFINITY;
  if (invertLD(VL, Vinv)) khat = nV * norm1(Vinv);
  out.khat = khat;
  if (!(khat <= KAPPA_SKIP)) { c.label("illconditioned_V(spectrum clauses skipped)"); return out; }
  c.label("spectrum clauses checked");

  vector<Cx> lam; for (size_t i = 0; i < n; ++i) lam.push_back(Cx(d[i], e[i]));
  const LD radius = CTOL * n * EPS * nA * khat;

  // (e) trace
  {
    LD tr = 0, sd = 0; for (size_t i = 0; i < n; ++i) { tr += AL[i][i]; sd += d[i]; }
    if (nA > 0) { c.observe("trace/(n eps |A|_1 khat)", static_cast<double>(fabsl(sd - tr) / (n * EPS * nA * khat))); c.observe("trace/(n eps |A|_1)", static_cast<double>(fabsl(sd - tr) / (n * EPS * nA))); }
    CHECK(fabsl(sd - tr) <= radius, "sum of eigenvalues " << static_cast<double>(sd) << " differs from trace " << static_cast<double>(tr) << " by " << static_cast<double>(fabsl(sd - tr)) << " > 100 n eps |A|_1 khat = " << static_cast<double>(radius) << " (khat=" << static_cast<double>(khat) << ")");
  }
  // (f) determinant: |prod lam^ - det A| <= prod(|lam^|+r) - prod|lam^| when every eigenvalue moved by at most r
  {
    Cx prod(1, 0); LD pa = 1, pr = 1; const LD r = 1.5L * radius;
    for (auto& z : lam) { prod *= z; pa *= abs(z); pr *= abs(z) + r; }
    LD det = detLD(AL), tol = pr - pa;
    if (tol > 0) c.observe("determinant/bound", static_cast<double>(fabsl(prod.real() - det) / tol));
    CHECK(fabsl(prod.real() - det) <= tol, "product of eigenvalues " << static_cast<double>(prod.real()) << " differs from det " << static_cast<double>(det) << " by " << static_cast<double>(fabsl(prod.real() - det)) << " > " << static_cast<double>(tol) << " (khat=" << static_cast<double>(khat) << ")");
    CHECK(fabsl(prod.imag()) <= tol, "product of eigenvalues has imaginary part " << static_cast<double>(prod.imag()));
  }
  // (g) prescribed spectrum (Bauer-Fike radius), when the radius separates the distinct prescribed values
  if (cs.specKnown && !cs.jordan) {
    LD sep = INFINITY;
    for (size_t i = 0; i < n; ++i) for (size_t j = 0; j < i; ++j) { LD dd = abs(cs.spec[i] - cs.spec[j]); if (dd > 0 && dd < sep) sep = dd; }
    if (radius < sep / 2) {
      LD b = bottleneck(lam, cs.spec);
      if (nA > 0) c.observe("spectrum/(n eps |A|_1 khat)", static_cast<double>(b / (n * EPS * nA * khat)));
      CHECK(b <= radius, "computed spectrum differs from the prescribed one: bottleneck distance " << static_cast<double>(b) << " > 100 n eps |A|_1 khat = " << static_cast<double>(radius) << " (khat=" << static_cast<double>(khat) << ")");
      c.label("prescribed spectrum compared");
    } else c.label("prescribed spectrum not compared (radius >= separation/2)");
  }
  return out;
}

void describe(vf::Ctx& c, const Case& cs) { c.desc << cs.kind << " n=" << cs.n << " " << STORAGE[cs.storage] << " A=" << showMat(cs.A); }
void nontrivial(vf::Ctx& c, const Case& cs, const Outcome& o) { c.nt((!o.sym && o.pairs >= 1) || cs.n >= 3 || cs.graded || cs.repeated); }

}  // namespace

// ------------------------------------------------------------------ L1: every generator class, every storage class
LAW(L1_decomposition, RC, 20000, 600000, 420, "non-symmetric with >=1 complex pair, or n>=3, or graded, or repeated eigenvalue", 30, true) {
  Case cs; cs.n = c.irange(1, 12); cs.storage = static_cast<int>(c.below(3));
  switch (c.weighted({1, 4, 2, 2, 3, 1, 4, 3, 2})) {
    case 8: genClustered(c, cs); break;
    case 0: genSpecial(c, cs); break;
    case 1: genDense(c, cs); break;
    case 2: genSymmetricDense(c, cs); if (c.oneIn(5)) breakSymmetry(c, cs); break;
    case 3: genTriangular(c, cs); break;
    case 4: genCompanion(c, cs); break;
    case 5: genCyclic(c, cs); break;
    case 6: genSpectral(c, cs, true, true, 48, 1e3); break;
    default: genGraded(c, cs);
  }
  if (!cs.graded && c.oneIn(4)) scalePow2(c, cs);
  describe(c, cs);
  Outcome o = checkDecomposition(c, cs);
  nontrivial(c, cs, o);
  c.label(cs.kind.substr(0, cs.kind.find('/')) == "spectral" ? "spectral" : cs.kind.substr(0, cs.kind.find('/')) == "companion" ? "companion" : cs.kind.substr(0, cs.kind.find('/')) == "clustered" ? "clustered" : "other");
  if (o.pairs) c.label("has complex pair");
}

// ------------------------------------------------------------------ L2: symmetric input (and symmetric input broken in one cell)
LAW(L2_symmetric, RC, 6000, 200000, 200, "n>=3, graded or repeated eigenvalue (symmetric), or symmetry broken in one cell", 30, true) {
  Case cs; cs.n = c.irange(1, 12); cs.storage = static_cast<int>(c.below(3));
  genSymmetricStructured(c, cs);
  bool broken = false;
  if (cs.n >= 2 && c.oneIn(4)) { breakSymmetry(c, cs); broken = true; }
  describe(c, cs);
  Outcome o = checkDecomposition(c, cs);
  CHECK(o.sym == !broken, "internal: generator symmetry bookkeeping");
  c.nt(cs.n >= 3 || cs.graded || cs.repeated || broken);
  if (broken) c.label("broken symmetry");
}

// ------------------------------------------------------------------ L6: all matrices over {0,1,-1} up to 3x3
LAW(L6_small_enum, ENUM, 0, 0, 0, "non-symmetric with >=1 complex pair, or n>=3, or repeated eigenvalue", 30, true) {
  Case cs; cs.n = c.irange(1, 3); cs.A = zeros(cs.n); cs.kind = "enum{0,1,-1}";
  unsigned h = 0;
  for (int i = 0; i < cs.n; ++i) for (int j = 0; j < cs.n; ++j) { int v = static_cast<int>(c.zig(1)); cs.A[i][j] = v; h = h * 3 + static_cast<unsigned>(v + 1); }
  cs.storage = static_cast<int>(h % 3);
  describe(c, cs);
  Outcome o = checkDecomposition(c, cs);
  nontrivial(c, cs, o);
}

// ------------------------------------------------------------------ exp / pow
namespace {
// scaling-and-squaring Taylor series in long double
LMat expTaylor(const LMat& A) {
  size_t n = A.size(); LD nrm = norm1(A); int s = 0; while (ldexpl(nrm, -s) > 0.5L) ++s;
  LMat X = A; for (auto& r : X) for (LD& x : r) x = ldexpl(x, -s);
  LMat R = lid(n), term = lid(n);
  for (int k = 1; k <= 30; ++k) { term = mulLD(term, X); for (auto& r : term) for (LD& x : r) x /= k; for (size_t i = 0; i < n; ++i) for (size_t j = 0; j < n; ++j) R[i][j] += term[i][j]; }
  for (int k = 0; k < s; ++k) R = mulLD(R, R);
  return R;
}
// S f(Lambda) S^-1 in long double (second, independent reference used only to bound the error of the first)
LMat spectralRef(const Case& cs, const vector<LD>& f) {
  size_t n = cs.S.size(); LMat T = lzeros(n);
  for (size_t i = 0; i < n; ++i) for (size_t k = 0; k < n; ++k) T[i][k] = cs.S[i][k] * f[k];
  return mulLD(T, cs.Sinv);
}
// Tolerance of O = fl(V f(D) inv(V)) for A = S Lambda S^-1 (S, Lambda known exactly):
//   * A V - V D = R with |R| <= c n eps |A||V| (clause checked by L1), i.e. V D V^-1 = A + E, |E| <= c n eps |A| khat;
//   * f(A+E) - f(A) = S (F o (S^-1 E S)) S^-1 + O(E^2), F_ij = f[lambda_i,lambda_j], |F_ij| <= max|f'| on the hull
//     of the spectrum: <= kappaS^2 |E| max|f'|;
//   * inversion by LU and the triple product: <= c n eps khat |V| max|f| |V^-1| = c n eps khat^2 max|f|.
// The formula of DESIGN.md (c n eps kappaS |f(A)|) is reported as an observation only: it is not a forward bound
// (f(A) can be tiny compared with max|f(lambda)| kappa, e.g. A = S diag(4,4,-4) S^-1, A^6 = 4096 I) and the calibration
// run exceeded it (ratio 265 > 100).
struct FunTol { LD design, analysis; };
FunTol funTol(size_t n, LD khat, LD kappaS, LD nA, LD nRef, LD maxf, LD maxdf) {
  FunTol t;
  t.design = CTOL * n * EPS * kappaS * nRef;
  t.analysis = CTOL * n * EPS * khat * (khat * maxf + kappaS * kappaS * nA * maxdf);
  return t;
}
LD libKhat(vf::Ctx& c, const Case& cs) {
  unique_ptr<Matrix<double>> M = store(cs.A, cs.storage);
  guardTermination(c, *M);
  EigenValue<double> ev(*M); LMat Vinv; LMat VL = toLD(fromLib(ev.getV()));
  if (!invertLD(VL, Vinv)) return INFINITY;
  return norm1(VL) * norm1(Vinv);
}
void genRealDiag(vf::Ctx& c, Case& cs, int lamMax8) {
  cs.n = c.irange(1, 12); cs.storage = static_cast<int>(c.below(3));
  if (c.oneIn(4)) {  // symmetric integer matrix: orthogonal eigenvectors, kappa_1 <= n
    int n = cs.n; cs.A = zeros(n); cs.kind = "symmetric/int"; cs.A8 = IMat(static_cast<size_t>(n), vector<long long>(static_cast<size_t>(n)));
    int m = std::max(1, lamMax8 / 8 / 2);
    for (int i = 0; i < n; ++i) for (int j = 0; j <= i; ++j) { long long v = c.zig(m); cs.A[i][j] = cs.A[j][i] = static_cast<double>(v); cs.A8[i][j] = cs.A8[j][i] = 8 * v; }
    cs.kappaS = n; cs.realDiag = true;
  } else genSpectral(c, cs, false, false, lamMax8, 1e3);
}
}  // namespace

LAW(L3_exp, RC, 4000, 100000, 220, "n>=3 or repeated eigenvalue or non-symmetric", 30, true) {
  Case cs; genRealDiag(c, cs, 32);
  int k2 = c.oneIn(3) ? -c.irange(1, 12) : 0;  // A 2^k2 : exp close to the identity
  if (k2) { for (auto& r : cs.A) for (double& x : r) x = std::ldexp(x, k2); for (LD& l : cs.lambda) l = ldexpl(l, k2); cs.kind += "*2^" + to_string(k2); }
  int ost = static_cast<int>(c.below(3));
  describe(c, cs); c.desc << " exp -> " << STORAGE[ost];
  const size_t n = static_cast<size_t>(cs.n);
  LMat AL = toLD(cs.A); LMat ref = expTaylor(AL); LD slack = 0;
  if (!cs.S.empty()) { vector<LD> f; for (LD l : cs.lambda) f.push_back(expl(l)); slack = 2 * maxDiff(ref, spectralRef(cs, f)); }
  LD khat = libKhat(c, cs);
  if (!(khat <= KAPPA_SKIP)) { c.label("illconditioned_V(skipped)"); return; }
  unique_ptr<Matrix<double>> M = store(cs.A, cs.storage), O = emptyOut(ost);
  MatrixTools::exp(*M, *O);
  CHECK(O->getNumberOfRows() == n && O->getNumberOfColumns() == n, "exp(A) is " << O->getNumberOfRows() << "x" << O->getNumberOfColumns());
  Mat R = fromLib(*O); for (auto& r : R) for (double x : r) CHECK(std::isfinite(x), "exp(A) has a non-finite entry");
  LD err = maxDiff(toLD(R), ref), nRef = norm1(ref), nA = norm1(AL);
  // max_i e^lambda_i: from the prescribed spectrum, or (symmetric input) bounded by ||exp A||_1
  LD maxf = nRef; if (!cs.S.empty()) { maxf = 0; for (LD l : cs.lambda) maxf = std::max(maxf, expl(l)); }
  FunTol t = funTol(n, khat, cs.kappaS, nA, nRef, maxf, maxf);
  c.observe("exp err/(n eps kappaS |exp A|_1) [DESIGN formula, not used]", static_cast<double>(err / (t.design / CTOL)));
  c.observe("exp err/bound (c=1)", static_cast<double>(err / (t.analysis / CTOL)));
  c.observe("exp reference disagreement/tolerance", static_cast<double>(slack / t.analysis));
  CHECK(err <= t.analysis + slack, "||exp(A) - Taylor||_max = " << static_cast<double>(err) << " exceeds 100 n eps khat (khat max e^lambda + kappaS^2 |A|_1 max e^lambda) = " << static_cast<double>(t.analysis) << " (|exp A|_1=" << static_cast<double>(nRef) << ", kappaS=" << cs.kappaS << ", khat=" << static_cast<double>(khat) << ", reference slack " << static_cast<double>(slack) << ")");
  c.nt(cs.n >= 3 || cs.repeated || !exactlySymmetric(cs.A));
}

LAW(L4_pow_integer, RC, 4000, 100000, 220, "exponent >= 2 and (n>=3 or repeated eigenvalue or non-symmetric)", 30, true) {
  Case cs; genRealDiag(c, cs, 32);
  int k = c.irange(0, 6); int ost = static_cast<int>(c.below(3));
  describe(c, cs); c.desc << " pow(A," << k << ".0) -> " << STORAGE[ost];
  const size_t n = static_cast<size_t>(cs.n);
  // exact repeated products of the integer matrix 8 A
  vector<vector<__int128>> P(n, vector<__int128>(n, 0)); for (size_t i = 0; i < n; ++i) P[i][i] = 1;
  for (int t = 0; t < k; ++t) {
    vector<vector<__int128>> Q(n, vector<__int128>(n, 0));
    for (size_t i = 0; i < n; ++i) for (size_t q = 0; q < n; ++q) for (size_t j = 0; j < n; ++j) Q[i][j] += P[i][q] * cs.A8[q][j];
    P = Q;
  }
  LMat ref = lzeros(n); for (size_t i = 0; i < n; ++i) for (size_t j = 0; j < n; ++j) ref[i][j] = ldexpl(static_cast<LD>(P[i][j]), -3 * k);
  LD khat = libKhat(c, cs);
  if (!(khat <= KAPPA_SKIP)) { c.label("illconditioned_V(skipped)"); return; }
  unique_ptr<Matrix<double>> M = store(cs.A, cs.storage), O = emptyOut(ost);
  MatrixTools::pow(*M, static_cast<double>(k), *O);
  CHECK(O->getNumberOfRows() == n && O->getNumberOfColumns() == n, "pow(A,k) is " << O->getNumberOfRows() << "x" << O->getNumberOfColumns());
  Mat R = fromLib(*O); for (auto& r : R) for (double x : r) CHECK(std::isfinite(x), "pow(A," << k << ") has a non-finite entry");
  LMat AL = toLD(cs.A);
  LD err = maxDiff(toLD(R), ref), nRef = norm1(ref), nA = norm1(AL);
  // spectral radius bounds: |lambda| <= ||A||_1
  // spectral radius: from the prescribed spectrum, or (symmetric input) bounded by ||A||_1
  LD rho = nA; if (!cs.S.empty()) { rho = 0; for (LD l : cs.lambda) rho = std::max(rho, fabsl(l)); }
  LD maxf = powl(rho, k), maxdf = k == 0 ? 0 : k * powl(rho, k - 1);
  FunTol t = funTol(n, khat, cs.kappaS, nA, nRef, maxf, maxdf);
  if (nRef > 0) c.observe("pow err/(n eps kappaS |A^k|_1) [DESIGN formula, not used]", static_cast<double>(err / (t.design / CTOL)));
  if (t.analysis > 0) c.observe("pow err/bound (c=1)", static_cast<double>(err / (t.analysis / CTOL)));
  CHECK(err <= t.analysis, "||pow(A," << k << ") - A^k||_max = " << static_cast<double>(err) << " exceeds 100 n eps khat (khat rho^k + kappaS^2 |A|_1 k rho^(k-1)) = " << static_cast<double>(t.analysis) << " (|A^k|_1=" << static_cast<double>(nRef) << ", rho=" << static_cast<double>(rho) << ", kappaS=" << cs.kappaS << ", khat=" << static_cast<double>(khat) << ")");
  c.nt(k >= 2 && (cs.n >= 3 || cs.repeated || !exactlySymmetric(cs.A)));
}

LAW(L5_sqrt_spd, RC, 3000, 100000, 200, "n>=3") {
  Case cs; cs.n = c.irange(1, 12); cs.storage = static_cast<int>(c.below(3)); int ost = static_cast<int>(c.below(3));
  const int n = cs.n; cs.A = zeros(n);
  size_t style = c.weighted({4, 1, 2});
  if (style == 0) {  // M M^T + k I, integer
    int k = c.irange(1, 9); int m = c.irange(1, 9); Mat Mx = zeros(n); cs.kind = "spd/MM^T+" + to_string(k) + "I";
    for (auto& r : Mx) for (double& x : r) x = static_cast<double>(c.zig(m));
    for (int i = 0; i < n; ++i) for (int j = 0; j < n; ++j) { double s = 0; for (int q = 0; q < n; ++q) s += Mx[i][q] * Mx[j][q]; cs.A[i][j] = s + (i == j ? k : 0); }
  } else if (style == 1) {  // positive diagonal
    cs.kind = "spd/diagonal"; for (int i = 0; i < n; ++i) cs.A[i][i] = c.logu(1e-3, 1e3);
  } else {  // strictly diagonally dominant with positive diagonal, real entries
    cs.kind = "spd/diagdominant";
    for (int i = 0; i < n; ++i) for (int j = 0; j < i; ++j) cs.A[i][j] = cs.A[j][i] = c.real(-1, 1);
    for (int i = 0; i < n; ++i) { double s = 0; for (int j = 0; j < n; ++j) if (j != i) s += std::fabs(cs.A[i][j]); cs.A[i][i] = s * 1.01 + c.logu(1e-2, 1e2); }
  }
  if (c.oneIn(4)) { int k2 = static_cast<int>(c.zig(20)); for (auto& r : cs.A) for (double& x : r) x = std::ldexp(x, k2); cs.kind += "*2^" + to_string(k2); }
  describe(c, cs); c.desc << " pow(A,0.5) -> " << STORAGE[ost];
  unique_ptr<Matrix<double>> M = store(cs.A, cs.storage), O = emptyOut(ost);
  MatrixTools::pow(*M, 0.5, *O);
  CHECK(O->getNumberOfRows() == static_cast<size_t>(n) && O->getNumberOfColumns() == static_cast<size_t>(n), "pow(A,0.5) has the wrong shape");
  Mat B = fromLib(*O); for (auto& r : B) for (double x : r) CHECK(std::isfinite(x), "pow(A,0.5) of a positive definite matrix has a non-finite entry");
  LMat BL = toLD(B), AL = toLD(cs.A); LD err = maxDiff(mulLD(BL, BL), AL), nA = norm1(AL);
  c.observe("sqrt^2 err/(n eps |A|_1)", static_cast<double>(err / (n * EPS * nA)));
  CHECK(err <= CTOL * n * EPS * nA, "||pow(A,0.5)^2 - A||_max = " << static_cast<double>(err) << " exceeds 100 n eps ||A||_1 = " << static_cast<double>(CTOL * n * EPS * nA));
  c.nt(n >= 3);
}

static struct Init { Init() { vf::G().resetHook = [] { vf::quietBpp(); vf::installAudit(); }; } } init_;
VF_MAIN("C06")
