// C15 — tree / DAG queries follow the graph-theoretic definitions; re-rooting keeps the topology.
// Laws of DESIGN.md section 5/C15.  Everything goes through the public observer API
// (AssociationTreeGlobalGraphObserver / AssociationDAGlobalGraphObserver) and the public methods of the
// observed TreeGlobalGraph / DAGlobalGraph.  The reference is a plain edge list kept by the harness (Model);
// tree answers (father, sons, paths, LCA, subtree, leaves) are computed from it by definition (TRef).
//
// Weakest documented readings used by the oracle:
//  * list results (sons, branches, subtree, leaves, below-nodes) are compared as sets (tree: as multisets, a tree
//    answer never repeats an element; DAG: as sets, a node reachable along two routes may be listed twice);
//  * a node/edge path between a and b is accepted in the order a..b or b..a; "includeAncestor=false" removes the top
//    node (the common ancestor) of the path even when it is one of the two extremities (comment in the code, doc of
//    the observer);
//  * the root of the tree is the node the container names as its root (getRoot()); it is never deleted, and the empty
//    tree is outside the quantifier (trees with 1..12 nodes).
//  * generator restrictions that keep the histories away from defects of the plain graph layer (property C14): an
//    ordered pair is never linked twice, removals in a history are only done while the graph is directed,
//    setRoot is only used "at first construction" as its documentation demands.
//  * non-trees next to a tree: loops x--x / x->x are linked in the rooted and in the un-rooted graph (in the histories half of the
//    dedicated loops sit on the node the container names as its root, the start of the validity traversal); E_tree_extra_link adds
//    every possible single link to every small tree, rooted or un-rooted, and takes it away again.
//  * law 4 is also asked of the tree graph itself, where the "edge object" is the edge id given to setFather(n,f,id) / addSon(f,n,id):
//    the id of the node's present branch (setFather unlinks the node from its father first, so that id is free for the new link), an id
//    set free earlier, or a new one.  An id in use by ANOTHER link is never given (the refusal is not part of the statement).
#include "common/pbt.hpp"
#include "common/bppcommon.hpp"

#include <Bpp/Exceptions.h>
#include <Bpp/Graph/AssociationDAGraphImplObserver.h>
#include <Bpp/Graph/AssociationTreeGraphImplObserver.h>

using namespace bpp;
using namespace std;

namespace {
typedef unsigned U;
typedef shared_ptr<U> Nref;
typedef shared_ptr<int> Eref;
typedef AssociationTreeGlobalGraphObserver<U, int> TObs;
typedef AssociationDAGlobalGraphObserver<U, int> DObs;

// known-finding ids (one per root cause)
const char* const K_LEAVES = "C15-leaves-unary";            // getLeavesUnderNode: a node with exactly one son is taken for a leaf
const char* const K_MRCA = "C15-mrca-lockstep";             // MRCA climbs all members in lock-step
const char* const K_BACK = "C15-istree-back-edge";          // isTree ignores the edge back to the node it came from (directed graph)
const char* const K_UNDIR = "C15-rootat-undirected";        // rootAt on an unrooted tree keeps the arbitrary orientation of makeDirected
const char* const K_MDTABLE = "C15-makedirected-edge-table"; // makeDirected (first step of rootAt on an unrooted tree) keeps the old ends of the edges in the edge table
const char* const K_EOBJ = "C15-edge-object-lookup";        // tree observer setFather/addSon(edge object) look the object up before it exists
const char* const K_BOUND = "C15-edges-from-graphid-bound"; // getEdgesFromGraphid: '>' instead of '>=' against the table size
const char* const K_DAEMPTY = "C15-isda-empty";             // isDA() false for the empty graph
const char* const K_NOROOT = "C15-dag-isrooted-noroot";     // DAG isRooted() true when no node is father-less
const char* const K_STALE = "C15-dag-isrooted-stale";       // DAG isRooted_ cache survives topology changes

template <class T> vector<T> sorted(vector<T> v) { sort(v.begin(), v.end()); return v; }
template <class T> vector<T> uniq(vector<T> v) { sort(v.begin(), v.end()); v.erase(unique(v.begin(), v.end()), v.end()); return v; }
template <class T> string str(const vector<T>& v) { ostringstream o; o << "["; for (size_t i = 0; i < v.size(); ++i) o << (i ? "," : "") << v[i]; o << "]"; return o.str(); }
template <class T> string str(const set<T>& s) { return str(vector<T>(s.begin(), s.end())); }
vector<U> labels(const vector<Nref>& v) { vector<U> r; for (auto& p : v) r.push_back(p ? *p : 99999u); return r; }
vector<int> tags(const vector<Eref>& v) { vector<int> r; for (auto& p : v) r.push_back(p ? *p : -1); return r; }
template <class T> bool seqOrReverse(const vector<T>& got, const vector<T>& want) { return got == want || got == vector<T>(want.rbegin(), want.rend()); }
template <class F> bool throwsBpp(F f) { try { f(); } catch (bpp::Exception&) { return true; } return false; }

// ------------------------------------------------------------------ reference model: nodes + edge list
struct ME { U id, a, b; int obj; };  // directed: a -> b
struct Model {
  bool directed = true; U root = 0;
  set<U> nodes; map<U, ME> edges;
  vector<U> out(U v) const { vector<U> r; for (auto& kv : edges) { const ME& e = kv.second; if (e.a == v) r.push_back(e.b); else if (!directed && e.b == v) r.push_back(e.a); } return sorted(r); }
  vector<U> in(U v) const { if (!directed) return out(v); vector<U> r; for (auto& kv : edges) if (kv.second.b == v) r.push_back(kv.second.a); return sorted(r); }
  vector<U> outEdges(U v) const { vector<U> r; for (auto& kv : edges) { const ME& e = kv.second; if (e.a == v || (!directed && e.b == v)) r.push_back(e.id); } return sorted(r); }
  vector<U> inEdges(U v) const { if (!directed) return outEdges(v); vector<U> r; for (auto& kv : edges) if (kv.second.b == v) r.push_back(kv.second.id); return sorted(r); }
  const ME* find(U a, U b) const { for (auto& kv : edges) { const ME& e = kv.second; if ((e.a == a && e.b == b) || (!directed && e.a == b && e.b == a)) return &e; } return nullptr; }
  const ME* findAny(U a, U b) const { const ME* e = find(a, b); return e ? e : find(b, a); }
  void eraseLink(U a, U b) { const ME* e = find(a, b); if (e) edges.erase(e->id); }
  bool reciprocal() const { for (auto& kv : edges) if (kv.second.a != kv.second.b && find(kv.second.b, kv.second.a) && directed) return true; return false; }
  bool selfLoop() const { for (auto& kv : edges) if (kv.second.a == kv.second.b) return true; return false; }
  bool rootLoop() const { return find(root, root) != nullptr; }
  size_t fatherless() const { size_t k = 0; for (U v : nodes) if (in(v).empty()) ++k; return k; }
  set<U> reach(U from) const { set<U> seen; vector<U> st{from}; seen.insert(from); while (!st.empty()) { U v = st.back(); st.pop_back(); for (U w : out(v)) if (seen.insert(w).second) st.push_back(w); } return seen; }
  // tree spanning all nodes from the root
  bool isTree() const {
    if (!nodes.count(root) || edges.size() + 1 != nodes.size()) return false;
    if (directed) for (U v : nodes) { size_t d = in(v).size(); if (v == root ? d != 0 : d != 1) return false; }
    return reach(root).size() == nodes.size();
  }
  // no directed cycle (colour DFS)
  bool isDag() const {
    map<U, int> col;
    function<bool(U)> dfs = [&](U v) { col[v] = 1; for (U w : out(v)) { if (col[w] == 1) return false; if (col[w] == 0 && !dfs(w)) return false; } col[v] = 2; return true; };
    for (U v : nodes) if (col[v] == 0 && !dfs(v)) return false;
    return true;
  }
  bool twoLowerNeighbours() const { for (U v : nodes) { int k = 0; for (U w : out(v)) if (w < v) ++k; if (k >= 2) return true; } return false; }
  // rootAt(v) on an unrooted tree = makeDirected (keeps every link as lower id -> higher id) + reversal of the links between v and the
  // father-less node.  A link that stays "lower -> higher" keeps its former entry (a,b) of the edge table: the entry is stale if it read higher -> lower.
  bool staleEdgeTableAfterRootAt(U v) const { Model f = *this; f.reroot(v); for (auto& kv : f.edges) { const ME& o = edges.at(kv.first); if (kv.second.a < kv.second.b && o.a > o.b) return true; } return false; }
  // orient a tree away from v
  void reroot(U v) {
    bool d = directed; directed = false; map<U, ME> ne; set<U> seen{v}; vector<U> st{v};
    while (!st.empty()) { U x = st.back(); st.pop_back(); for (U w : out(x)) if (seen.insert(w).second) { ME e = *find(x, w); e.a = x; e.b = w; ne[e.id] = e; st.push_back(w); } }
    (void)d; edges = ne; directed = true; root = v;
  }
  string show() const { ostringstream o; o << (directed ? "directed" : "undirected") << " root=" << root << " nodes=" << str(nodes) << " edges={"; for (auto& kv : edges) o << kv.second.a << (directed ? ">" : "-") << kv.second.b << "#" << kv.first << (kv.second.obj >= 0 ? "*" : "") << " "; o << "}"; return o.str(); }
};

// tree answers by definition (the model must be a directed tree)
struct TRef {
  U root; map<U, U> par, upEdge; map<U, vector<U>> ch;
  explicit TRef(const Model& m) : root(m.root) { for (U v : m.nodes) ch[v]; for (auto& kv : m.edges) { par[kv.second.b] = kv.second.a; upEdge[kv.second.b] = kv.first; ch[kv.second.a].push_back(kv.second.b); } }
  int depth(U v) const { int d = 0; while (par.count(v)) { v = par.at(v); ++d; } return d; }
  bool isAnc(U a, U v) const { for (;;) { if (v == a) return true; if (!par.count(v)) return false; v = par.at(v); } }  // a is v or above v
  U lca(U a, U b) const { while (!isAnc(b, a)) b = par.at(b); return b; }
  U lca(const vector<U>& s) const { U l = s[0]; for (U x : s) l = lca(l, x); return l; }
  vector<U> path(U a, U b, bool incl) const { U l = lca(a, b); vector<U> r, d; for (U x = a; x != l; x = par.at(x)) r.push_back(x); if (incl) r.push_back(l); for (U x = b; x != l; x = par.at(x)) d.push_back(x); r.insert(r.end(), d.rbegin(), d.rend()); return r; }
  vector<U> edgePath(U a, U b) const { U l = lca(a, b); vector<U> r, d; for (U x = a; x != l; x = par.at(x)) r.push_back(upEdge.at(x)); for (U x = b; x != l; x = par.at(x)) d.push_back(upEdge.at(x)); r.insert(r.end(), d.rbegin(), d.rend()); return r; }
  vector<U> subtree(U v) const { vector<U> r, st{v}; while (!st.empty()) { U x = st.back(); st.pop_back(); r.push_back(x); for (U w : ch.at(x)) st.push_back(w); } return sorted(r); }
  vector<U> subtreeEdges(U v) const { vector<U> r; for (U x : subtree(v)) if (x != v) r.push_back(upEdge.at(x)); return sorted(r); }
  vector<U> leavesUnder(U v) const { vector<U> r; for (U x : subtree(v)) if (ch.at(x).empty()) r.push_back(x); return r; }
  bool unaryUnder(U v) const { for (U x : subtree(v)) if (ch.at(x).size() == 1) return true; return false; }
  bool anyUnary() const { for (auto& kv : ch) if (kv.second.size() == 1) return true; return false; }
  // class of inputs on which the lock-step MRCA differs from the definition: members at different depths below an LCA that is not the root
  bool mrcaClass(const vector<U>& s) const { U l = lca(s); if (l == root) return false; int d0 = depth(s[0]); for (U x : s) if (depth(x) != d0) return true; return false; }
};

// ------------------------------------------------------------------ system under test + model, common part
template <class Obs> struct Sut {
  vf::Ctx& c; Obs obs; decltype(obs.getGraph()) g; Model m; map<U, Nref> N; vector<Eref> E;
  U eVec = 0;                   // size of the observer's edge table (grows in observer.link / associateEdge only)
  const char* pending = nullptr; // deferred exclusion: a check of a known-finding class was left out of this case
  bool isTreeKind;
  Sut(vf::Ctx& c_, bool tree) : c(c_), obs(), g(obs.getGraph()), isTreeKind(tree) {}
  Sut(vf::Ctx& c_, bool tree, bool rooted) : c(c_), obs(rooted), g(obs.getGraph()), isTreeKind(tree) {}
  bool known(const char* id) { if (c.isKnown(id)) { if (!pending) pending = id; return true; } return false; }
  void finish() { if (pending) c.excludeIfKnown(pending); }
  Eref newE() { E.push_back(make_shared<int>(static_cast<int>(E.size()))); return E.back(); }
  Eref objOf(const ME& e) const { return e.obj >= 0 ? E[static_cast<size_t>(e.obj)] : Eref(); }
  vector<U> live() const { return vector<U>(m.nodes.begin(), m.nodes.end()); }
  void noteEdge(U a, U b, int obj, bool throughObserver) {
    U id = g->getEdge(a, b);
    CHECK(!m.edges.count(id), "a new link " << a << "," << b << " received the id " << id << " of a live edge");
    m.edges[id] = ME{id, a, b, obj};
    if (throughObserver) eVec = max(eVec, id + 1);
  }
  U createNode() {
    Nref p = make_shared<U>(0); obs.createNode(p); U id = obs.getNodeGraphid(p); *p = id;
    CHECK(!m.nodes.count(id), "createNode returned the id of a live node"); N[id] = p; m.nodes.insert(id); return id;
  }
  U createNodeFrom(U from, bool withObj) {
    Nref p = make_shared<U>(0); Eref e = withObj ? newE() : Eref();
    obs.createNode(N[from], p, e); U id = obs.getNodeGraphid(p); *p = id; N[id] = p; m.nodes.insert(id);
    noteEdge(from, id, e ? *e : -1, true); return id;
  }
  void linkObs(U a, U b, bool withObj) { Eref e = withObj ? newE() : Eref(); obs.link(N[a], N[b], e); noteEdge(a, b, e ? *e : -1, true); }
  void attach(U a, U b) { Eref e = newE(); obs.setEdgeLinking(N[a], N[b], e); ME& me = m.edges.at(m.find(a, b)->id); me.obj = *e; eVec = max(eVec, me.id + 1); }
  void unlinkObs(U a, U b) { obs.unlink(N[a], N[b]); m.eraseLink(a, b); }
  void deleteNode(U v) {
    obs.deleteNode(N[v]);
    for (auto it = m.edges.begin(); it != m.edges.end();) { if (it->second.a == v || it->second.b == v) it = m.edges.erase(it); else ++it; }
    m.nodes.erase(v); N.erase(v);
  }
  bool boundClass(const vector<U>& edgeIds) const { for (U e : edgeIds) if (e == eVec) return true; return false; }
  vector<int> objTags(const vector<U>& edgeIds) const { vector<int> r; for (U e : edgeIds) if (m.edges.at(e).obj >= 0) r.push_back(m.edges.at(e).obj); return r; }

  // the container holds exactly the model's graph: nodes, links (with orientation), edge ids, attached objects
  void checkStructure(const char* where) {
    CHECK(sorted(g->getAllNodes()) == live(), where << ": nodes of the graph " << str(sorted(g->getAllNodes())) << ", model " << m.show());
    CHECK(sorted(labels(obs.getAllNodes())) == live(), where << ": node objects of the observer " << str(sorted(labels(obs.getAllNodes()))) << ", model " << m.show());
    CHECK(g->isDirected() == m.directed, where << ": isDirected()=" << g->isDirected() << ", model " << m.show());
    if (isTreeKind) CHECK(g->getRoot() == m.root, where << ": getRoot()=" << g->getRoot() << ", model " << m.show());
    vector<U> ids; for (auto& kv : m.edges) ids.push_back(kv.first);
    CHECK(sorted(g->getAllEdges()) == ids, where << ": edge ids of the graph " << str(sorted(g->getAllEdges())) << ", model " << m.show());
    for (U v : m.nodes) {
      CHECK(sorted(g->getOutgoingNeighbors(v)) == m.out(v), where << ": outgoing neighbours of " << v << " are " << str(sorted(g->getOutgoingNeighbors(v))) << ", model " << m.show());
      CHECK(sorted(g->getIncomingNeighbors(v)) == m.in(v), where << ": incoming neighbours of " << v << " are " << str(sorted(g->getIncomingNeighbors(v))) << ", model " << m.show());
      CHECK(sorted(g->getOutgoingEdges(v)) == m.outEdges(v), where << ": outgoing edge ids of " << v << " are " << str(sorted(g->getOutgoingEdges(v))) << ", model " << m.show());
      CHECK(sorted(g->getIncomingEdges(v)) == m.inEdges(v), where << ": incoming edge ids of " << v << " are " << str(sorted(g->getIncomingEdges(v))) << ", model " << m.show());
      CHECK(obs.getNodeFromGraphid(v) == N.at(v) && obs.getNodeGraphid(N.at(v)) == v, where << ": node object of id " << v << " changed");
    }
    for (auto& kv : m.edges) {
      const ME& e = kv.second; pair<U, U> ends = g->getNodes(e.id);
      bool same = (ends.first == e.a && ends.second == e.b) || (!m.directed && ends.first == e.b && ends.second == e.a);
      CHECK(same, where << ": edge " << e.id << " joins " << ends.first << "," << ends.second << ", model " << m.show());
      CHECK(obs.getEdgeFromGraphid(e.id) == objOf(e), where << ": edge " << e.id << " (" << e.a << "," << e.b << ") carries " << (obs.getEdgeFromGraphid(e.id) ? "another" : "no") << " edge object, model " << m.show());
      if (e.obj >= 0) CHECK(obs.hasEdge(objOf(e)) && obs.getEdgeGraphid(objOf(e)) == e.id, where << ": edge object of edge " << e.id << " is not registered under that id");
    }
  }
};

// ------------------------------------------------------------------ tree container
struct Shape { int n = 1, r0 = 0; vector<int> par; string text; };  // par[r0] = -1; labels 0..n-1

vector<pair<int, int>> pruferEdges(int n, const vector<int>& s) {
  vector<pair<int, int>> e;
  if (n == 2) e.push_back({0, 1});
  if (n <= 2) return e;
  vector<int> deg(static_cast<size_t>(n), 1); for (int x : s) deg[static_cast<size_t>(x)]++;
  for (int x : s) for (int l = 0; l < n; ++l) if (deg[static_cast<size_t>(l)] == 1) { e.push_back({l, x}); deg[static_cast<size_t>(l)]--; deg[static_cast<size_t>(x)]--; break; }
  int u = -1, v = -1; for (int l = 0; l < n; ++l) if (deg[static_cast<size_t>(l)] == 1) { if (u < 0) u = l; else v = l; }
  e.push_back({u, v}); return e;
}
Shape orient(int n, const vector<pair<int, int>>& e, int r0) {
  Shape s; s.n = n; s.r0 = r0; s.par.assign(static_cast<size_t>(n), -2); s.par[static_cast<size_t>(r0)] = -1;
  vector<int> st{r0};
  while (!st.empty()) { int x = st.back(); st.pop_back(); for (auto& pq : e) { int y = pq.first == x ? pq.second : pq.second == x ? pq.first : -1; if (y >= 0 && s.par[static_cast<size_t>(y)] == -2) { s.par[static_cast<size_t>(y)] = x; st.push_back(y); } } }
  ostringstream o; o << "n=" << n << " root=" << r0 << " parent=["; for (int i = 0; i < n; ++i) o << (i ? "," : "") << s.par[static_cast<size_t>(i)]; o << "]"; s.text = o.str();
  return s;
}
// every labelled tree on n nodes (Pruefer sequence) x every root: all rooted labelled trees
Shape enumShape(vf::Ctx& c, int fixedRoot = -1, int cap = 7) {
  int maxN = (c.s.enumerating() && c.shardN < 32) ? 6 : 7;  // the thorough tier runs the enum laws with 32 shards
  maxN = min(maxN, cap);
  int n = 1 + static_cast<int>(c.below(7)); if (n > maxN) throw vf::Skip();
  vector<int> s; for (int i = 0; i + 2 < n; ++i) s.push_back(static_cast<int>(c.below(static_cast<uint64_t>(n))));
  int r0 = fixedRoot >= 0 ? 0 : static_cast<int>(c.below(static_cast<uint64_t>(n)));
  return orient(n, pruferEdges(n, s), r0);
}
Shape randomShape(vf::Ctx& c, int maxN) {
  int n = 1 + static_cast<int>(c.below(static_cast<uint64_t>(maxN)));
  vector<pair<int, int>> e;
  switch (c.weighted({3, 2, 1})) {
    case 0: { vector<int> s; for (int i = 0; i + 2 < n; ++i) s.push_back(static_cast<int>(c.below(static_cast<uint64_t>(n)))); e = pruferEdges(n, s); break; }
    case 1: for (int i = 1; i < n; ++i) e.push_back({c.oneIn(3) ? static_cast<int>(c.below(static_cast<uint64_t>(i))) : i - 1, i}); break;  // long unary runs
    default: for (int i = 1; i < n; ++i) e.push_back({static_cast<int>(c.below(static_cast<uint64_t>(i))), i});                          // random recursive tree
  }
  return orient(n, e, static_cast<int>(c.below(static_cast<uint64_t>(n))));
}

struct TreeSut : Sut<TObs> {
  explicit TreeSut(vf::Ctx& c_) : Sut<TObs>(c_, true, true) {}
  map<int, U> idOf;  // label -> graph id
  // mode 0: all nodes, then observer.link with an edge object for every edge
  // mode 1: breadth-first createNode(from,new,edge object for every other edge): ids are the BFS ranks
  // mode 2: all nodes, then setFather / addSon in turn without objects; objects attached afterwards (first and last edge)
  // mode 3: as 2 but no edge object at all
  void build(const Shape& s, int mode) {
    size_t n = static_cast<size_t>(s.n);
    if (mode == 1) {
      vector<int> q{s.r0}; idOf[s.r0] = createNode(); int k = 0;
      for (size_t h = 0; h < q.size(); ++h) for (int y = 0; y < s.n; ++y) if (s.par[static_cast<size_t>(y)] == q[h]) { idOf[y] = createNodeFrom(idOf[q[h]], (k++ % 2) == 0); q.push_back(y); }
    } else {
      for (int i = 0; i < s.n; ++i) idOf[i] = createNode();
      int k = 0; U first = 0, last = 0; bool any = false;
      for (size_t y = 0; y < n; ++y) {
        if (s.par[y] < 0) continue;
        U f = idOf[s.par[y]], v = idOf[static_cast<int>(y)];
        if (mode == 0) linkObs(f, v, true);
        else { if ((k++ % 2) == 0) obs.setFather(N[v], N[f]); else obs.addSon(N[f], N[v]); noteEdge(f, v, -1, false); if (!any) first = v; last = v; any = true; }
      }
      if (mode == 2 && any) { TRef r(m); attach(r.par.at(first), first); if (last != first) attach(r.par.at(last), last); }
      if (s.r0 != 0) obs.setRoot(N[idOf[s.r0]]);  // "to be used at first construction"
    }
    m.root = idOf[s.r0];
  }

  // law 1: validity == reference, asked twice with a structural query in between
  void validity(const char* where) {
    bool ref = m.isTree();
    if (m.directed && (m.reciprocal() || m.rootLoop())) c.excludeIfKnown(K_BACK);
    bool v1 = obs.isValid(); size_t ns = g->getNumberOfSons(m.root); (void)ns; bool h = g->hasFather(m.root); (void)h; bool v2 = g->isValid();
    CHECK(v1 == ref, where << ": isValid()=" << v1 << " but the graph is " << (ref ? "" : "not ") << "a tree spanning all nodes from the root: " << m.show());
    CHECK(v2 == ref, where << ": second isValid()=" << v2 << " after " << v1 << "; reference " << ref << ": " << m.show());
    // isRooted() is not part of the property statement: asked (it is one of the "earlier queries" validity must not depend on), not asserted
    if (obs.isRooted() != m.directed) c.label("observed_isRooted_differs_from_model");
  }

  // law 3 for one node
  void nodeQueries(const TRef& r, U v) {
    bool isRoot = v == m.root; auto at = [&] { return " in " + m.show(); };
    CHECK(g->hasFather(v) == !isRoot && obs.hasFather(N[v]) == !isRoot, "hasFather(" << v << ")=" << g->hasFather(v) << at());
    if (isRoot) {
      CHECK(throwsBpp([&] { g->getFatherOfNode(v); }), "getFatherOfNode(root) did not raise" << at());
      CHECK(throwsBpp([&] { obs.getEdgeToFather(N[v]); }), "getEdgeToFather(root) did not raise" << at());
    } else {
      CHECK(g->getFatherOfNode(v) == r.par.at(v), "getFatherOfNode(" << v << ")=" << g->getFatherOfNode(v) << at());
      CHECK(obs.getFatherOfNode(N[v]) == N[r.par.at(v)], "observer getFatherOfNode(" << v << ") is not the father's object" << at());
      CHECK(g->getEdgeToFather(v) == r.upEdge.at(v), "getEdgeToFather(" << v << ")=" << g->getEdgeToFather(v) << at());
      CHECK(obs.getEdgeToFather(N[v]) == objOf(m.edges.at(r.upEdge.at(v))), "observer getEdgeToFather(" << v << ") is not the object attached to edge " << r.upEdge.at(v) << at());
    }
    vector<U> ch = sorted(r.ch.at(v)), br = m.outEdges(v);
    CHECK(sorted(g->getSons(v)) == ch, "getSons(" << v << ")=" << str(sorted(g->getSons(v))) << at());
    CHECK(sorted(labels(obs.getSons(N[v]))) == ch, "observer getSons(" << v << ")=" << str(sorted(labels(obs.getSons(N[v])))) << at());
    CHECK(g->getNumberOfSons(v) == ch.size() && obs.getNumberOfSons(N[v]) == ch.size(), "getNumberOfSons(" << v << ")=" << g->getNumberOfSons(v) << at());
    CHECK(sorted(g->getBranches(v)) == br, "getBranches(" << v << ")=" << str(sorted(g->getBranches(v))) << at());
    vector<int> wantTags = sorted(objTags(br));
    if (!(boundClass(br) && known(K_BOUND))) CHECK(sorted(tags(obs.getBranches(N[v]))) == wantTags, "observer getBranches(" << v << ") objects " << str(sorted(tags(obs.getBranches(N[v])))) << " expected " << str(wantTags) << at());
    // iterators = list queries
    { vector<U> a, b2; const TreeGlobalGraph& cg = *g;
      for (auto it = cg.sonsIterator(v); !it->end(); it->next()) a.push_back(**it);
      for (auto it = g->branchesIterator(v); !it->end(); it->next()) b2.push_back(**it);
      CHECK(sorted(a) == ch && sorted(b2) == br, "sons/branches iterators of " << v << " give " << str(a) << " / " << str(b2) << at());
      vector<Nref> on; vector<Eref> oe;
      for (auto it = obs.sonsIterator(N[v]); !it->end(); it->next()) on.push_back(**it);
      for (auto it = obs.branchesIterator(N[v]); !it->end(); it->next()) oe.push_back(**it);
      CHECK(sorted(labels(on)) == ch && sorted(tags(oe)) == wantTags, "observer sons/branches iterators of " << v << " give " << str(labels(on)) << " / " << str(tags(oe)) << at()); }
    for (U e : br) if (m.edges.at(e).obj >= 0) {
      Eref eo = objOf(m.edges.at(e));
      CHECK(obs.getFatherOfEdge(eo) == N[v] && obs.getSon(eo) == N[m.edges.at(e).b], "getFatherOfEdge/getSon of the object on edge " << e << at());
    }
    vector<U> sn = r.subtree(v), se = r.subtreeEdges(v);
    CHECK(sorted(g->getSubtreeNodes(v)) == sn, "getSubtreeNodes(" << v << ")=" << str(sorted(g->getSubtreeNodes(v))) << " expected " << str(sn) << at());
    CHECK(sorted(labels(obs.getSubtreeNodes(N[v]))) == sn, "observer getSubtreeNodes(" << v << ")" << at());
    CHECK(sorted(g->getSubtreeEdges(v)) == se, "getSubtreeEdges(" << v << ")=" << str(sorted(g->getSubtreeEdges(v))) << " expected " << str(se) << at());
    if (!(boundClass(se) && known(K_BOUND))) CHECK(sorted(tags(obs.getSubtreeEdges(N[v]))) == sorted(objTags(se)), "observer getSubtreeEdges(" << v << ")" << at());
  }
  // law 3 for one ordered pair; returns true for an ancestor/descendant pair
  bool pairQueries(const TRef& r, U a, U b, bool objLevel) {
    auto at = [&] { return " in " + m.show(); };
    vector<U> p1 = r.path(a, b, true), p0 = r.path(a, b, false), pe = r.edgePath(a, b);
    vector<U> g1 = g->getNodePathBetweenTwoNodes(a, b, true), g0 = g->getNodePathBetweenTwoNodes(a, b, false), ge = g->getEdgePathBetweenTwoNodes(a, b);
    CHECK(seqOrReverse(g1, p1), "getNodePathBetweenTwoNodes(" << a << "," << b << ",true)=" << str(g1) << " expected " << str(p1) << at());
    CHECK(seqOrReverse(g0, p0), "getNodePathBetweenTwoNodes(" << a << "," << b << ",false)=" << str(g0) << " expected " << str(p0) << " (path without its top node)" << at());
    CHECK(seqOrReverse(ge, pe), "getEdgePathBetweenTwoNodes(" << a << "," << b << ")=" << str(ge) << " expected " << str(pe) << at());
    if (objLevel) {
      CHECK(seqOrReverse(labels(obs.getNodePathBetweenTwoNodes(N[a], N[b], true)), p1) && seqOrReverse(labels(obs.getNodePathBetweenTwoNodes(N[a], N[b], false)), p0), "observer getNodePathBetweenTwoNodes(" << a << "," << b << ")" << at());
      if (!(boundClass(pe) && known(K_BOUND))) CHECK(seqOrReverse(tags(obs.getEdgePathBetweenTwoNodes(N[a], N[b])), objTags(pe)), "observer getEdgePathBetweenTwoNodes(" << a << "," << b << ")=" << str(tags(obs.getEdgePathBetweenTwoNodes(N[a], N[b]))) << " expected " << str(objTags(pe)) << at());
    }
    if (!r.mrcaClass({a, b})) {  // MRCA takes a set of nodes: {a} when a = b
      U l = r.lca(a, b); vector<U> s{a}; if (b != a) s.push_back(b);
      U got = g->MRCA(s); CHECK(got == l, "MRCA(" << str(s) << ")=" << got << " expected " << l << at());
    }
    return a != b && (r.lca(a, b) == a || r.lca(a, b) == b);
  }
  // all structural queries on a valid rooted tree; returns true if some ancestor/descendant pair was queried
  // (every bpp::Exception costs a symbolised backtrace and getEdgePathBetweenTwoNodes raises one per upward step: the
  //  observer-level pair queries are made for a <= b only, and `half` restricts the graph-level ones to a <= b as well)
  bool queries(bool objLevel, bool half = false) {
    TRef r(m); bool ad = false;
    for (U v : m.nodes) nodeQueries(r, v);
    for (U a : m.nodes) for (U b : m.nodes) if (!half || a <= b) ad |= pairQueries(r, a, b, objLevel && a <= b);
    return ad;
  }
  void mrcaCheck(const TRef& r, const vector<U>& s, bool objLevel) {
    U l = r.lca(s);
    if (r.mrcaClass(s) && known(K_MRCA)) return;
    U got = g->MRCA(s);
    CHECK(got == l, "MRCA(" << str(s) << ")=" << got << " expected " << l << " in " << m.show());
    if (objLevel) { vector<Nref> o; for (U x : s) o.push_back(N[x]); CHECK(obs.MRCA(o) == N[l], "observer MRCA(" << str(s) << ") is not the object of node " << l << " in " << m.show()); }
  }
  void leavesCheck(const TRef& r, U v) {
    if (r.unaryUnder(v) && known(K_LEAVES)) return;
    vector<U> want = r.leavesUnder(v), got = sorted(g->getLeavesUnderNode(v));
    CHECK(got == want, "getLeavesUnderNode(" << v << ")=" << str(got) << " expected " << str(want) << " in " << m.show());
    CHECK(sorted(labels(obs.getLeavesUnderNode(N[v]))) == want, "observer getLeavesUnderNode(" << v << ") in " << m.show());
  }
  // law 2: re-root a valid tree (rooted or not) at v
  void rootAtChecked(U v, const char* where) {
    obs.rootAt(N[v]); m.reroot(v);
    checkStructure(where);  // same undirected links, same ids, same objects, oriented away from v
    for (U x : m.nodes) CHECK(g->hasFather(x) == (x != v), where << ": after rootAt(" << v << ") hasFather(" << x << ")=" << g->hasFather(x));
    validity(where);
  }
};

string shapeAndMode(const Shape& s, int mode) { ostringstream o; o << s.text << " build=" << mode; return o.str(); }

}  // namespace

// ================================================================== trees, bounded-exhaustive
// every rooted labelled tree with 1..6 (thorough: 7) nodes x 3-4 ways of building it: validity, all node queries, all ordered
// pairs, re-rooting at every node and back.
LAW(E_tree_queries, ENUM, 16, 32, 0, "a tree with a unary inner node, or >= 2 nodes (ancestor/descendant pairs and re-rooting away from the root occur)") {
  Shape s = enumShape(c);
  c.desc << s.text; c.shardPoint();
  // building mode: all 4 up to 4 nodes, 3 for 5 nodes; with 6 or 7 nodes one of the 3, fixed by the shape
  int mode = s.n <= 5 ? static_cast<int>(c.below(s.n <= 4 ? 4 : 3)) : static_cast<int>(vf::hashStr(s.text) % 3);
  c.desc << " build=" << mode;
  TreeSut t(c); t.build(s, mode);
  CHECK(t.m.isTree(), "internal: the generated shape is not a tree");
  t.checkStructure("after construction"); t.validity("after construction");
  bool ad = t.queries(true);
  c.nt(TRef(t.m).anyUnary() || ad);
  Model base = t.m;
  for (U v : base.nodes) {
    t.rootAtChecked(v, "rootAt");
    if (v == *base.nodes.rbegin()) t.queries(false, true);
    t.rootAtChecked(base.root, "rootAt back");
    for (auto& kv : base.edges) { const ME& e = t.m.edges.at(kv.first); CHECK(e.a == kv.second.a && e.b == kv.second.b, "internal: model orientation not restored"); }
  }
  t.finish();
}

// one case = (rooted labelled tree, queried node): the exclusion of the known class is exact per query
LAW(E_tree_leaves, ENUM, 4, 32, 0, "a queried node with >= 2 nodes below it (some node below is unary or branches)") {
  Shape s = enumShape(c);
  c.desc << s.text; c.shardPoint();
  TreeSut t(c); t.build(s, 0);
  TRef r(t.m); U v = t.live()[c.below(t.m.nodes.size())];
  c.desc << " getLeavesUnderNode(" << v << ")"; c.nt(r.subtree(v).size() >= 3);
  if (r.unaryUnder(v)) c.excludeIfKnown(K_LEAVES);
  t.leavesCheck(r, v);
}

// one case = (rooted labelled tree, set of 1..4 nodes)
LAW(E_tree_mrca, ENUM, 8, 32, 0, "a queried set in which one member is an ancestor of another") {
  Shape s = enumShape(c);
  c.desc << s.text; c.shardPoint();
  size_t n = static_cast<size_t>(s.n); size_t mask = 1 + c.below((uint64_t(1) << n) - 1);
  vector<U> sub; for (size_t i = 0; i < n; ++i) if (mask >> i & 1) sub.push_back(static_cast<U>(i));
  if (sub.size() > 4) throw vf::Skip();
  TreeSut t(c); t.build(s, 0);
  TRef r(t.m); bool ad = false;
  c.desc << " MRCA" << str(sub);
  for (U a : sub) for (U b : sub) if (a != b && r.isAnc(a, b)) ad = true;
  c.nt(ad);
  if (r.mrcaClass(sub)) c.excludeIfKnown(K_MRCA);
  t.mrcaCheck(r, sub, true);
  if (sub.size() >= 2) { vector<U> rv(sub.rbegin(), sub.rend()); t.mrcaCheck(r, rv, false); }
}

// un-root, then re-root at a node
LAW(E_tree_unroot_reroot, ENUM, 4, 32, 0, "re-rooting at a node other than the former root") {
  Shape s = enumShape(c);
  c.desc << s.text; c.shardPoint();
  TreeSut t(c); t.build(s, 0);
  U v = t.live()[c.below(t.m.nodes.size())];
  c.desc << " unRoot(false) rootAt(" << v << ")"; c.nt(v != t.m.root);
  t.g->unRoot(false); t.m.directed = false;
  t.checkStructure("after unRoot(false)"); t.validity("after unRoot(false)");
  if (t.m.twoLowerNeighbours()) c.excludeIfKnown(K_UNDIR);
  if (t.m.staleEdgeTableAfterRootAt(v)) c.excludeIfKnown(K_MDTABLE);
  t.rootAtChecked(v, "rootAt after unRoot(false)");
  t.queries(false);
  t.finish();
}

// ================================================================== trees, random to 12 nodes
LAW(R_tree_random, RC, 1200, 60000, 40, "a tree with a unary inner node and >= 7 nodes, or re-rooting at a non-root non-leaf") {
  Shape s = randomShape(c, 12);
  int mode = static_cast<int>(c.weighted({3, 3, 3, 1}));
  c.desc << shapeAndMode(s, mode);
  TreeSut t(c); t.build(s, mode);
  t.checkStructure("after construction"); t.validity("after construction");
  t.queries(true);
  bool nt = TRef(t.m).anyUnary() && s.n >= 7;
  int k = c.irange(0, 2);
  for (int i = 0; i < k; ++i) {
    U v = t.live()[c.below(t.m.nodes.size())]; bool viaUnroot = c.oneIn(4);
    c.desc << (viaUnroot ? " unRoot;rootAt(" : " rootAt(") << v << ")";
    { TRef r(t.m); if (v != t.m.root && !r.ch.at(v).empty()) nt = true; }
    if (viaUnroot) {
      t.g->unRoot(false); t.m.directed = false; t.checkStructure("after unRoot(false)"); t.validity("after unRoot(false)");
      if (t.m.twoLowerNeighbours()) c.excludeIfKnown(K_UNDIR);
      if (t.m.staleEdgeTableAfterRootAt(v)) c.excludeIfKnown(K_MDTABLE);
    }
    t.rootAtChecked(v, "rootAt"); t.queries(i == 0);
  }
  c.nt(nt);
  t.finish();
}

LAW(R_tree_mrca_leaves, RC, 16000, 500000, 40, "a queried set in which one member is an ancestor of another, or >= 2 nodes below the queried node") {
  Shape s = randomShape(c, 12);
  c.desc << s.text;
  TreeSut t(c); t.build(s, 0);
  TRef r(t.m); vector<U> nd = t.live();
  if (c.flag()) {
    U v = nd[c.below(nd.size())]; c.desc << " getLeavesUnderNode(" << v << ")"; c.nt(r.subtree(v).size() >= 3);
    if (r.unaryUnder(v)) c.excludeIfKnown(K_LEAVES);
    t.leavesCheck(r, v);
  } else {
    int k = c.irange(1, 4); vector<U> sub;
    for (int j = 0; j < k; ++j) { U x = nd[c.below(nd.size())]; if (find(sub.begin(), sub.end(), x) == sub.end()) sub.push_back(x); }
    c.desc << " MRCA" << str(sub);
    for (U a : sub) for (U b : sub) if (a != b && r.isAnc(a, b)) c.nt();
    if (r.mrcaClass(sub)) c.excludeIfKnown(K_MRCA);
    t.mrcaCheck(r, sub, true);
  }
}

// ================================================================== trees, histories
LAW(H_tree_history, RC, 20000, 600000, 260, "a history in which the validity of the tree changes at least twice") {
  TreeSut t(c);
  t.createNode(); c.desc << "new0";
  int nops = c.irange(1, 24); bool lastRef = true; int flips = 0;
  for (int op = 0; op < nops; ++op) {
    vector<U> nd = t.live(); Model& m = t.m;
    U a = nd[c.below(nd.size())], b = nd[c.below(nd.size())]; bool wobj = c.flag();
    size_t kind = c.weighted({6, 2, 5, 5, 1, 3, 1, 2, 3, 1, 1, 2, 1, 4, 3, 3, 1});
    if (kind == 16) { kind = 2; b = a = c.flag() ? m.root : a; }  // a loop, half of the time on the node the container names as its root
    else {
      bool back = a == b || m.find(b, a) != nullptr;  // the new link a->b would be a self-loop or close a reciprocal pair: only now and then
      if (back && (kind == 2 || kind == 3 || kind == 4 || kind == 11 || kind == 15) && !c.oneIn(8)) kind = 13;
    }
    c.desc << "; ";
    switch (kind) {
      case 0:  // createNode(from, new, edge?)
        if (nd.size() >= 9) { c.desc << "nop"; break; }
        c.desc << "create(" << a << "->new" << (wobj ? ",obj" : "") << ")"; t.createNodeFrom(a, wobj); break;
      case 1:  // isolated node
        if (nd.size() >= 9) { c.desc << "nop"; break; }
        c.desc << "create()"; t.createNode(); break;
      case 2:  // addSon without object
        if (m.find(a, b)) { c.desc << "nop"; break; }
        c.desc << "addSon(" << a << "," << b << ")"; t.obs.addSon(t.N[a], t.N[b]); t.noteEdge(a, b, -1, false); break;
      case 3: {  // setFather(b := son, a := father) without object
        if (!m.directed) { c.desc << "nop"; break; }
        vector<U> fs = m.in(b);
        if (fs.size() > 1) { c.desc << "nop"; break; }  // "the" father to replace is not defined: not generated
        c.desc << "setFather(" << b << "," << a << ")";
        t.obs.setFather(t.N[b], t.N[a]); if (fs.size() == 1) m.eraseLink(fs[0], b); t.noteEdge(a, b, -1, false); break; }
      case 4: {  // law 4: setFather / addSon with an edge object
        if (!m.directed) { c.desc << "nop"; break; }
        bool viaFather = wobj; vector<U> fs = m.in(b);
        if (viaFather ? fs.size() > 1 : m.find(a, b) != nullptr) { c.desc << "nop"; break; }
        c.desc << (viaFather ? "setFather(" : "addSon(") << (viaFather ? b : a) << "," << (viaFather ? a : b) << ",obj)";
        c.excludeIfKnown(K_EOBJ);
        Eref e = t.newE();
        if (viaFather) { t.obs.setFather(t.N[b], t.N[a], e); if (fs.size() == 1) m.eraseLink(fs[0], b); } else t.obs.addSon(t.N[a], t.N[b], e);
        t.noteEdge(a, b, *e, true);
        CHECK(t.obs.getEdgeLinking(t.N[a], t.N[b]) == e, "the edge object given to setFather/addSon is not attached to the new link " << a << "->" << b);
        break; }
      case 5: {  // removeSon of an existing link
        if (!m.directed || m.edges.empty()) { c.desc << "nop"; break; }
        auto it = m.edges.begin(); advance(it, static_cast<long>(c.below(m.edges.size()))); ME e = it->second;
        c.desc << "removeSon(" << e.a << "," << e.b << ")"; t.obs.removeSon(t.N[e.a], t.N[e.b]); m.edges.erase(e.id); break; }
      case 6: {  // removeSons
        if (!m.directed) { c.desc << "nop"; break; }
        c.desc << "removeSons(" << a << ")"; vector<U> want = m.out(a);
        vector<U> got = sorted(labels(t.obs.removeSons(t.N[a])));
        CHECK(got == want, "removeSons(" << a << ") returned " << str(got) << " expected " << str(want));
        for (U s : want) m.eraseLink(a, s); break; }
      case 7:  // deleteNode (never the root; in an undirected graph only an isolated node)
        if (a == m.root || (!m.directed && !m.out(a).empty())) { c.desc << "nop"; break; }
        c.desc << "deleteNode(" << a << ")"; t.deleteNode(a); break;
      case 8: {  // rootAt
        c.desc << "rootAt(" << a << ")";
        if (m.directed && (m.reciprocal() || m.rootLoop())) c.excludeIfKnown(K_BACK);
        if (!m.isTree()) { CHECK(throwsBpp([&] { t.obs.rootAt(t.N[a]); }), "rootAt on an invalid tree did not raise: " << m.show()); c.desc << "!"; break; }
        if (!m.directed && m.twoLowerNeighbours()) c.excludeIfKnown(K_UNDIR);
        if (!m.directed && m.staleEdgeTableAfterRootAt(a)) c.excludeIfKnown(K_MDTABLE);
        t.obs.rootAt(t.N[a]); m.reroot(a);
        for (U x : m.nodes) CHECK(t.g->hasFather(x) == (x != a), "after rootAt(" << a << ") hasFather(" << x << ")=" << t.g->hasFather(x));
        break; }
      case 9:  // unRoot(false)
        c.desc << "unRoot(false)";
        if (m.directed && m.reciprocal()) { CHECK(throwsBpp([&] { t.g->unRoot(false); }), "unRoot(false) with reciprocal links did not raise"); c.desc << "!"; break; }
        t.g->unRoot(false); m.directed = false; break;
      case 10: {  // unRoot(true): the root needs exactly two sons
        if (!m.directed) { c.desc << "nop"; break; }
        vector<U> so = m.out(m.root);
        if (so.size() != 2) { c.desc << "unRoot(true)!"; CHECK(throwsBpp([&] { t.g->unRoot(true); }), "unRoot(true) with " << so.size() << " sons of the root did not raise"); break; }
        if (m.selfLoop() || m.reciprocal() || m.findAny(so[0], so[1])) { c.desc << "nop"; break; }
        c.desc << "unRoot(true)";
        t.g->unRoot(true); m.eraseLink(m.root, so[0]); m.eraseLink(m.root, so[1]); m.root = so[0]; m.directed = false;
        U id = t.g->getAnyEdge(so[0], so[1]); m.edges[id] = ME{id, so[0], so[1], -1}; break; }
      case 11:  // observer.link
        if (m.find(a, b)) { c.desc << "nop"; break; }
        c.desc << "link(" << a << "," << b << (wobj ? ",obj" : "") << ")"; t.linkObs(a, b, wobj); break;
      case 12: {  // observer.unlink of an existing link
        if (!m.directed || m.edges.empty()) { c.desc << "nop"; break; }
        auto it = m.edges.begin(); advance(it, static_cast<long>(c.below(m.edges.size()))); ME e = it->second;
        c.desc << "unlink(" << e.a << "," << e.b << ")"; t.unlinkObs(e.a, e.b); break; }
      case 13:  // explicit validity query
        c.desc << "isValid?"; t.validity("isValid query"); break;
      case 15: {  // law 4 on the tree graph itself: setFather / addSon with an explicit edge id
        if (!m.directed) { c.desc << "nop"; break; }
        bool viaFather = wobj; vector<U> fs = m.in(b);
        if (viaFather ? fs.size() > 1 : m.find(a, b) != nullptr) { c.desc << "nop"; break; }
        // the id: the node's present branch (the node moves and keeps its branch), the lowest id not in use (possibly one set free
        // by an earlier removal), or an id beyond all ids in use
        U lowFree = 0; while (m.edges.count(lowFree)) ++lowFree;
        U id = lowFree; size_t pick = c.below(3);
        if (pick == 0 && viaFather && fs.size() == 1) id = m.find(fs[0], b)->id;
        else if (pick == 2) id = (m.edges.empty() ? 0 : m.edges.rbegin()->first + 1) + 1 + static_cast<U>(c.below(3));
        c.desc << (viaFather ? "g.setFather(" : "g.addSon(") << (viaFather ? b : a) << "," << (viaFather ? a : b) << ",#" << id << ")";
        if (viaFather) { t.g->setFather(b, a, id); if (fs.size() == 1) m.eraseLink(fs[0], b); } else t.g->addSon(a, b, id);
        CHECK(t.g->getEdge(a, b) == id, "the link " << a << "->" << b << " made with the edge id " << id << " carries the id " << t.g->getEdge(a, b));
        t.noteEdge(a, b, -1, false);
        if (m.in(b).size() == 1) CHECK(t.g->getEdgeToFather(b) == id, "getEdgeToFather(" << b << ")=" << t.g->getEdgeToFather(b) << " after the link to its father was made with the edge id " << id);
        break; }
      default: {  // structural queries (getSubtreeNodes goes through the validity cache)
        c.desc << "queries";
        if (!m.directed) break;
        if (m.reciprocal() || m.rootLoop()) c.excludeIfKnown(K_BACK);
        if (m.isTree()) { TRef r(m); t.nodeQueries(r, a); t.pairQueries(r, a, b, true); t.pairQueries(r, b, a, false); }
        else {
          CHECK(throwsBpp([&] { t.g->getSubtreeNodes(a); }), "getSubtreeNodes on an invalid tree did not raise: " << m.show());
          CHECK(sorted(t.g->getSons(a)) == m.out(a) && t.g->hasFather(a) == !m.in(a).empty(), "getSons/hasFather of " << a << " in " << m.show());
          if (m.in(a).size() == 1) CHECK(t.g->getFatherOfNode(a) == m.in(a)[0], "getFatherOfNode(" << a << ") in " << m.show());
        }
        break; }
    }
    t.checkStructure("after the last operation");
    bool ref = m.isTree(); if (ref != lastRef) { ++flips; lastRef = ref; }
    if (c.flag()) { c.desc << " v"; t.validity("after the last operation"); }   // validity asked or NOT asked between edits
  }
  t.validity("at the end of the history");
  c.nt(flips >= 2);
  t.finish();
}

// ================================================================== law 4: edge object given to setFather / addSon (/ addFather)
LAW(E_edge_object, ENUM, 1, 1, 0, "the son already has a father") {
  bool tree = c.flag(); int op = static_cast<int>(c.below(2)); int prior = static_cast<int>(c.below(3)); bool priorObj = c.flag();
  // nodes 0,1,2; 0->1 always; son := 2; prior 0: 2 is isolated, 1: 0->2 exists, 2: 1->... (father := 1, son := 2 has father 0)
  c.desc << (tree ? "tree " : "dag ") << "0->1" << (prior ? (priorObj ? ", 0->2 with object" : ", 0->2 without object") : "") << "; "
         << (op == 0 ? (tree ? "setFather(2,1,obj)" : "addFather(2,1,obj)") : "addSon(1,2,obj)");
  if (prior == 2 || (!prior && priorObj)) throw vf::Skip();
  c.nt(prior == 1);
  if (tree) {
    TreeSut t(c); t.createNode(); t.createNodeFrom(0, true); t.createNode();
    if (prior) t.linkObs(0, 2, priorObj);
    t.checkStructure("before");
    c.excludeIfKnown(K_EOBJ);
    Eref e = t.newE();
    if (op == 0) { t.obs.setFather(t.N[2], t.N[1], e); t.m.eraseLink(0, 2); } else t.obs.addSon(t.N[1], t.N[2], e);
    t.noteEdge(1, 2, *e, true);
    CHECK(t.obs.getEdgeLinking(t.N[1], t.N[2]) == e, "getEdgeLinking(1,2) is not the edge object given to " << (op == 0 ? "setFather" : "addSon"));
    if (t.m.in(2).size() == 1) CHECK(t.obs.getEdgeToFather(t.N[2]) == e, "getEdgeToFather(2) is not the edge object given to " << (op == 0 ? "setFather" : "addSon"));
    t.checkStructure("after"); t.validity("after");
  } else {
    Sut<DObs> d(c, false); d.createNode(); d.createNodeFrom(0, true); d.createNode();
    if (prior) d.linkObs(0, 2, priorObj);
    Eref e = d.newE();
    if (op == 0) d.obs.addFather(d.N[2], d.N[1], e); else d.obs.addSon(d.N[1], d.N[2], e);
    d.noteEdge(1, 2, *e, true);
    CHECK(d.obs.getEdgeLinking(d.N[1], d.N[2]) == e, "getEdgeLinking(1,2) is not the edge object given to " << (op == 0 ? "addFather" : "addSon"));
    d.checkStructure("after");
    CHECK(d.obs.isValid(), "isValid()=false for the DAG " << d.m.show());
  }
}

// ================================================================== near-trees: a valid tree plus one more link (loops included), rooted or un-rooted
// every rooted labelled tree with 1..5 nodes x every pair (a,b) not yet linked x {rooted, after unRoot(false)} x {validity asked before
// the edit or not}: the graph with the additional link a->b (a--b) has as many links as nodes and is never a tree; without it, it is one again.
LAW(E_tree_extra_link, ENUM, 4, 32, 0, "the additional link is a loop, or joins a node to one of its ancestors (the root included)") {
  Shape s = enumShape(c, -1, 5);
  c.desc << s.text; c.shardPoint();
  size_t n = static_cast<size_t>(s.n);
  U a = static_cast<U>(c.below(n)), b = static_cast<U>(c.below(n)); bool unrooted = c.flag(), asked = c.flag(), viaLink = c.flag();
  TreeSut t(c); t.build(s, 0); Model& m = t.m;
  if (unrooted ? (a > b || m.findAny(a, b)) : m.find(a, b) != nullptr) throw vf::Skip();
  c.desc << (unrooted ? " unRoot(false)" : "") << (asked ? " isValid?" : "") << (viaLink ? " link(" : " addSon(") << a << "," << b << ")";
  { TRef r(m); c.nt(a == b || r.isAnc(b, a)); }
  if (unrooted) { t.g->unRoot(false); m.directed = false; }
  if (asked) t.validity("before the additional link");
  if (viaLink) t.linkObs(a, b, true); else { t.obs.addSon(t.N[a], t.N[b]); t.noteEdge(a, b, -1, false); }
  t.checkStructure("with the additional link"); t.validity("with the additional link");
  if (viaLink) t.unlinkObs(a, b); else { t.obs.removeSon(t.N[a], t.N[b]); m.eraseLink(a, b); }
  t.checkStructure("after removing the additional link"); t.validity("after removing the additional link");
  t.finish();
}

// law 4 on the tree graph itself: every rooted labelled tree with 1..5 nodes x node v x new father f x edge id (the present
// branch of v, the lowest id not in use, an id beyond all ids in use) x {setFather(v,f,id), removeSon(father,v) + addSon(f,v,id)}
LAW(E_edge_id, ENUM, 4, 32, 0, "the node had a father and is given another one") {
  Shape s = enumShape(c, -1, 5);
  c.desc << s.text; c.shardPoint();
  size_t n = static_cast<size_t>(s.n);
  U v = static_cast<U>(c.below(n)), f = static_cast<U>(c.below(n)); size_t pick = c.below(3); bool viaFather = c.flag();
  TreeSut t(c); t.build(s, static_cast<int>(vf::hashStr(s.text) % 2) * 2); Model& m = t.m;  // links made by observer.link with objects, or by setFather / addSon
  vector<U> fs = m.in(v);
  if (pick == 0 && fs.empty()) throw vf::Skip();
  U id = 0; while (m.edges.count(id)) ++id;
  if (pick == 0) id = m.find(fs[0], v)->id; else if (pick == 2) id += 2;
  c.desc << " build=" << (vf::hashStr(s.text) % 2) * 2 << (viaFather ? " g.setFather(" : " removeSon;g.addSon(") << (viaFather ? v : f) << "," << (viaFather ? f : v) << ",#" << id << ")";
  c.nt(!fs.empty() && fs[0] != f);
  t.validity("before");
  if (viaFather) t.g->setFather(v, f, id);
  else { if (!fs.empty()) t.obs.removeSon(t.N[fs[0]], t.N[v]); t.g->addSon(f, v, id); }
  if (!fs.empty()) m.eraseLink(fs[0], v);
  CHECK(t.g->getEdge(f, v) == id, "the link " << f << "->" << v << " made with the edge id " << id << " carries the id " << t.g->getEdge(f, v));
  t.noteEdge(f, v, -1, false);
  CHECK(t.g->getEdgeToFather(v) == id, "getEdgeToFather(" << v << ")=" << t.g->getEdgeToFather(v) << " after the link to its father was made with the edge id " << id);
  t.checkStructure("after"); t.validity("after");
  if (m.isTree()) {
    TRef r(m); t.nodeQueries(r, v); t.nodeQueries(r, f); t.pairQueries(r, v, f, true);
    U oldRoot = m.root; t.rootAtChecked(v, "rootAt the node that was moved"); t.rootAtChecked(oldRoot, "rootAt back");
    CHECK(t.g->getEdgeToFather(v) == id, "getEdgeToFather(" << v << ")=" << t.g->getEdgeToFather(v) << " after re-rooting there and back; the link was made with the edge id " << id);
  }
  t.finish();
}

// ================================================================== DAGs
namespace {
struct DagSut : Sut<DObs> {
  explicit DagSut(vf::Ctx& c_) : Sut<DObs>(c_, false) {}
  bool rootedTrueSeen = false, editedSince = false;  // for the class of the stale rootedness cache
  void edited() { editedSince = true; }
  void validity(const char* where) {
    bool ref = m.isDag();
    if (m.nodes.empty()) c.excludeIfKnown(K_DAEMPTY);
    bool v1 = obs.isValid(); size_t k = m.nodes.empty() ? 0 : g->getNumberOfSons(*m.nodes.begin()); (void)k; bool v2 = g->isValid();
    CHECK(v1 == ref, where << ": isValid()=" << v1 << " but the graph is " << (ref ? "acyclic" : "cyclic") << ": " << m.show());
    CHECK(v2 == ref, where << ": second isValid()=" << v2 << " after " << v1 << ": " << m.show());
  }
  void rootedness(const char* where) {
    // DAG isRooted() is not part of the property statement (which speaks about validity and the structural queries): it is asked as an
    // intervening query that validity must not depend on, and a disagreement with the definition is only labelled (two documented-
    // behaviour defects were observed here: true when no node is father-less, and a cached 'true' surviving topology edits).
    size_t k = m.fatherless(); bool ref = k == 1; (void)where;
    bool r1 = obs.isRooted(), r2 = g->isRooted();
    if (r1 != ref || r2 != ref) c.label("observed_dag_isRooted_differs_from_definition");
    if (r1) { rootedTrueSeen = true; editedSince = false; }
  }
  void queries() {
    auto at = [&] { return " in " + m.show(); };
    for (U v : m.nodes) {
      vector<U> fa = m.in(v), so = m.out(v);
      CHECK(sorted(g->getFathers(v)) == fa && sorted(labels(obs.getFathers(N[v]))) == fa, "getFathers(" << v << ")=" << str(sorted(g->getFathers(v))) << at());
      CHECK(sorted(g->getSons(v)) == so && sorted(labels(obs.getSons(N[v]))) == so, "getSons(" << v << ")=" << str(sorted(g->getSons(v))) << at());
      CHECK(g->getNumberOfFathers(v) == fa.size() && obs.getNumberOfFathers(N[v]) == fa.size() && g->getNumberOfSons(v) == so.size() && obs.getNumberOfSons(N[v]) == so.size(), "getNumberOfFathers/Sons(" << v << ")" << at());
      CHECK(g->hasFather(v) == !fa.empty() && obs.hasFather(N[v]) == !fa.empty(), "hasFather(" << v << ")" << at());
      vector<Nref> itf, its;
      for (auto it = obs.fathersIterator(N[v]); !it->end(); it->next()) itf.push_back(**it);
      for (auto it = obs.sonsIterator(N[v]); !it->end(); it->next()) its.push_back(**it);
      CHECK(sorted(labels(itf)) == fa && sorted(labels(its)) == so, "fathers/sons iterators of " << v << at());
      for (U e : m.outEdges(v)) if (m.edges.at(e).obj >= 0) CHECK(obs.getFatherOfEdge(objOf(m.edges.at(e))) == N[v] && obs.getSon(objOf(m.edges.at(e))) == N[m.edges.at(e).b], "getFatherOfEdge/getSon of the object on edge " << e << at());
      set<U> rs = m.reach(v); vector<U> below(rs.begin(), rs.end()), be;
      for (auto& kv : m.edges) if (rs.count(kv.second.a)) be.push_back(kv.first);
      CHECK(uniq(g->getBelowNodes(v)) == below && uniq(labels(obs.getBelowNodes(N[v]))) == below, "getBelowNodes(" << v << ")=" << str(uniq(g->getBelowNodes(v))) << " expected " << str(below) << at());
      CHECK(uniq(g->getBelowEdges(v)) == sorted(be), "getBelowEdges(" << v << ")=" << str(uniq(g->getBelowEdges(v))) << " expected " << str(sorted(be)) << at());
      if (!(boundClass(be) && known(K_BOUND))) CHECK(uniq(tags(obs.getBelowEdges(N[v]))) == sorted(objTags(be)), "observer getBelowEdges(" << v << ")" << at());
    }
  }
  // leaves under v = nodes reachable from v that have no son; returns the number of nodes below v (v included)
  size_t leavesUnder(U v) {
    set<U> rs = m.reach(v); bool unary = false; vector<U> lv; for (U x : rs) { if (m.out(x).size() == 1) unary = true; if (m.out(x).empty()) lv.push_back(x); }
    if (unary) c.excludeIfKnown(K_LEAVES);
    CHECK(uniq(g->getLeavesUnderNode(v)) == lv, "getLeavesUnderNode(" << v << ")=" << str(uniq(g->getLeavesUnderNode(v))) << " expected " << str(lv) << " in " << m.show());
    CHECK(uniq(labels(obs.getLeavesUnderNode(N[v]))) == lv, "observer getLeavesUnderNode(" << v << ") in " << m.show());
    return rs.size();
  }
};
// all digraphs "forward edge subset of 0<1<..<n-1 (+ at most one backward edge)", nodes created in the order 0.. or n-1..
struct DagCase { int n; vector<pair<int, int>> edges; bool hasBack; };
DagCase enumDag(vf::Ctx& c, DagSut& d, bool withBack) {
  int maxN = (c.s.enumerating() && c.shardN < 32) ? 5 : 6;
  DagCase dc; dc.n = static_cast<int>(c.below(7)); if (dc.n > maxN) throw vf::Skip();
  bool rev = dc.n >= 2 && c.flag();
  vector<pair<int, int>> fw; for (int i = 0; i < dc.n; ++i) for (int j = i + 1; j < dc.n; ++j) fw.push_back({i, j});
  c.desc << "n=" << dc.n << (rev ? " reversed-ids" : "") << " edges=";
  for (auto& e : fw) if (c.flag()) { dc.edges.push_back(e); c.desc << e.first << ">" << e.second << " "; }
  dc.hasBack = false;
  if (withBack && !fw.empty()) { size_t k = c.below(fw.size() + 1); if (k > 0) { dc.edges.push_back({fw[k - 1].second, fw[k - 1].first}); dc.hasBack = true; c.desc << "back " << fw[k - 1].second << ">" << fw[k - 1].first; } }
  c.shardPoint();
  // addSon / addFather / link: all three up to 4 nodes, beyond one of them (fixed by the digraph)
  int how = dc.n <= 4 ? static_cast<int>(c.below(3)) : static_cast<int>(vf::hashStr(c.desc.str()) % 3); c.desc << " build=" << how;
  map<int, U> id; for (int i = 0; i < dc.n; ++i) { int lab = rev ? dc.n - 1 - i : i; id[lab] = d.createNode(); }
  int k = 0;
  for (auto& e : dc.edges) {
    U a = id[e.first], b = id[e.second]; bool wobj = (k % 2) == 0 || k + 1 == static_cast<int>(dc.edges.size()); ++k;
    if (how == 0) d.linkObs(a, b, wobj);
    else { Eref eo = wobj ? d.newE() : Eref(); if (how == 1) d.obs.addSon(d.N[a], d.N[b], eo); else d.obs.addFather(d.N[b], d.N[a], eo); d.noteEdge(a, b, eo ? *eo : -1, wobj);
           if (wobj) CHECK(d.obs.getEdgeLinking(d.N[a], d.N[b]) == eo, "the edge object given to addSon/addFather is not attached to the new link"); }
  }
  return dc;
}
}  // namespace

LAW(E_dag_small, ENUM, 8, 32, 0, "a digraph with a cycle, or a node with two fathers") {
  DagSut d(c); DagCase dc = enumDag(c, d, true);
  bool twoF = false; for (U v : d.m.nodes) if (d.m.in(v).size() >= 2) twoF = true;
  c.nt(dc.hasBack || twoF);
  d.checkStructure("after construction");
  d.validity("after construction");
  d.rootedness("after construction");
  if (d.m.isDag()) d.queries();
  else if (!d.m.nodes.empty()) CHECK(throwsBpp([&] { d.g->getBelowNodes(*d.m.nodes.begin()); }), "getBelowNodes on a cyclic graph did not raise");
  d.validity("after the queries");
  d.finish();
}

LAW(E_dag_leaves, ENUM, 4, 32, 0, "a queried node with >= 2 nodes below it") {
  DagSut d(c); DagCase dc = enumDag(c, d, false);
  if (d.m.nodes.empty()) throw vf::Skip();
  U v = d.live()[c.below(d.m.nodes.size())]; c.desc << " getLeavesUnderNode(" << v << ")";
  c.nt(d.m.reach(v).size() >= 3);
  d.leavesUnder(v);
  (void)dc;
}

LAW(H_dag_history, RC, 20000, 600000, 200, "a history in which validity or rootedness changes at least twice") {
  DagSut d(c);
  d.createNode(); c.desc << "new0";
  int nops = c.irange(1, 24); bool lastV = true, lastR = true; int flips = 0;
  for (int op = 0; op < nops; ++op) {
    vector<U> nd = d.live(); Model& m = d.m; c.desc << "; ";
    size_t kind = c.weighted({5, 2, 5, 5, 3, 2, 1, 1, 2, 2, 1, 4, 3, 2});
    if (nd.empty() && kind != 1 && kind != 11 && kind != 12) { c.desc << "nop"; continue; }
    U a = nd.empty() ? 0 : nd[c.below(nd.size())], b = nd.empty() ? 0 : nd[c.below(nd.size())]; bool wobj = c.flag();
    auto pickEdge = [&]() { auto it = m.edges.begin(); advance(it, static_cast<long>(c.below(m.edges.size()))); return it->second; };
    switch (kind) {
      case 0: if (nd.size() >= 8) { c.desc << "nop"; break; } c.desc << "create(" << a << "->new" << (wobj ? ",obj" : "") << ")"; d.createNodeFrom(a, wobj); d.edited(); break;
      case 1: if (nd.size() >= 8) { c.desc << "nop"; break; } c.desc << "create()"; d.createNode(); d.edited(); break;
      case 2: case 3: {  // addSon(a,b[,obj]) / addFather(b,a[,obj])
        if (m.find(a, b) || (a == b && !c.oneIn(4))) { c.desc << "nop"; break; }
        c.desc << (kind == 2 ? "addSon(" : "addFather(") << (kind == 2 ? a : b) << "," << (kind == 2 ? b : a) << (wobj ? ",obj)" : ")");
        Eref e = wobj ? d.newE() : Eref();
        if (kind == 2) d.obs.addSon(d.N[a], d.N[b], e); else d.obs.addFather(d.N[b], d.N[a], e);
        d.noteEdge(a, b, e ? *e : -1, wobj); d.edited();
        if (wobj) CHECK(d.obs.getEdgeLinking(d.N[a], d.N[b]) == e, "the edge object given to addSon/addFather is not attached to the new link " << a << "->" << b);
        break; }
      case 4: case 5: {  // removeSon / removeFather of an existing link
        if (m.edges.empty()) { c.desc << "nop"; break; }
        ME e = pickEdge(); c.desc << (kind == 4 ? "removeSon(" : "removeFather(") << (kind == 4 ? e.a : e.b) << "," << (kind == 4 ? e.b : e.a) << ")";
        if (kind == 4) d.obs.removeSon(d.N[e.a], d.N[e.b]); else d.obs.removeFather(d.N[e.b], d.N[e.a]);
        m.edges.erase(e.id); d.edited(); break; }
      case 6: { c.desc << "removeSons(" << a << ")"; vector<U> want = m.out(a); vector<U> got = sorted(labels(d.obs.removeSons(d.N[a])));
        CHECK(got == want, "removeSons(" << a << ") returned " << str(got) << " expected " << str(want)); for (U s : want) m.eraseLink(a, s); d.edited(); break; }
      case 7: { c.desc << "removeFathers(" << a << ")"; vector<U> want = m.in(a); vector<U> got = sorted(labels(d.obs.removeFathers(d.N[a])));
        CHECK(got == want, "removeFathers(" << a << ") returned " << str(got) << " expected " << str(want)); for (U f : want) m.eraseLink(f, a); d.edited(); break; }
      case 8: if (nd.size() == 1 && !c.oneIn(8)) { c.desc << "nop"; break; } c.desc << "deleteNode(" << a << ")"; d.deleteNode(a); d.edited(); break;
      case 9: if (m.find(a, b)) { c.desc << "nop"; break; } c.desc << "link(" << a << "," << b << (wobj ? ",obj" : "") << ")"; d.linkObs(a, b, wobj); d.edited(); break;
      case 10: { if (m.edges.empty()) { c.desc << "nop"; break; } ME e = pickEdge(); c.desc << "unlink(" << e.a << "," << e.b << ")"; d.unlinkObs(e.a, e.b); d.edited(); break; }
      case 11: c.desc << "isValid?"; d.validity("isValid query"); break;
      case 12: c.desc << "isRooted?"; d.rootedness("isRooted query"); break;
      default:
        c.desc << "queries";
        if (m.isDag()) d.queries();
        else CHECK(throwsBpp([&] { d.g->getBelowNodes(a); }), "getBelowNodes on a cyclic graph did not raise: " << m.show());
        break;
    }
    d.checkStructure("after the last operation");
    bool v = m.isDag(), r = m.fatherless() == 1; if (v != lastV) { ++flips; lastV = v; } if (r != lastR) { ++flips; lastR = r; }
    if (c.flag()) { c.desc << " v"; d.validity("after the last operation"); }
  }
  d.validity("at the end of the history");
  if (c.flag()) { c.desc << "; isRooted?"; d.rootedness("at the end of the history"); }
  c.nt(flips >= 2);
  d.finish();
}

static struct Init { Init() { vf::G().resetHook = [] { vf::quietBpp(); vf::installAudit(); }; } } init_;
VF_MAIN("C15")
