// C02 — bulk parameter updates are atomic; names stay unique; copies are independent.
// Stateful model-based law over 3 ParameterList objects (+ an owning AbstractParametrizable law).
#include "common/pbt.hpp"
#include "common/bppcommon.hpp"

#include <Bpp/Numeric/AbstractParametrizable.h>
#include <Bpp/Numeric/Parameter.h>
#include <Bpp/Numeric/ParameterList.h>

using namespace bpp;
using namespace std;

namespace {
const double INF = numeric_limits<double>::infinity();
struct Iv { double lo, hi; bool il, iu; };
const Iv POOL[] = {{0, 10, true, true}, {0, 5, false, false}, {2, 8, true, false}, {-INF, 3, false, true}, {0, INF, true, false}};
const int NPOOL = 5;
bool acc(int cons, double v) { if (cons < 0) return true; const Iv& i = POOL[cons]; return (i.il ? v >= i.lo : v > i.lo) && (i.iu ? v <= i.hi : v < i.hi); }
shared_ptr<IntervalConstraint> mk(int cons) { if (cons < 0) return nullptr; const Iv& i = POOL[cons]; return make_shared<IntervalConstraint>(i.lo, i.hi, i.il, i.iu); }
string showC(int cons) { if (cons < 0) return "none"; const Iv& i = POOL[cons]; ostringstream o; o << (i.il ? "[" : "]") << i.lo << ";" << i.hi << (i.iu ? "]" : "["); return o.str(); }
const char* NAMES[] = {"a", "b", "c", "d", "e", "f", "g", "h", "i", "j"};

struct Obj { string name; double v; int cons; };
struct World {
  vector<Obj> objs;                               // object table (ids model sharing)
  vector<vector<int>> M;                          // model lists: object ids
  vector<unique_ptr<ParameterList>> L;            // real lists
  int find(const vector<int>& l, const string& n) const { for (size_t k = 0; k < l.size(); ++k) if (objs[l[k]].name == n) return static_cast<int>(k); return -1; }
  int newObj(const Obj& o) { objs.push_back(o); return static_cast<int>(objs.size()) - 1; }
  vector<int> cloneList(const vector<int>& l) { vector<int> r; for (int id : l) r.push_back(newObj(objs[id])); return r; }
};

// a value accepted by constraint `cons`
double insideVal(vf::Ctx& c, int cons) {
  for (int t = 0; t < 50; ++t) { double v = static_cast<double>(c.irange(0, 12)) / 2 + (cons == 3 ? -4 : 0); if (acc(cons, v)) return v; }
  return cons == 3 ? 1 : 3;
}
double anyVal(vf::Ctx& c) { return static_cast<double>(c.irange(0, 24)) / 2 - 2; }   // -2 .. 10, half steps

void audit(World& w, const char* where) {
  for (size_t li = 0; li < w.L.size(); ++li) {
    ParameterList& pl = *w.L[li]; const vector<int>& m = w.M[li];
    CHECK(pl.size() == m.size(), where << ": list " << li << " has size " << pl.size() << ", model " << m.size());
    vector<string> names = pl.getParameterNames();
    set<string> seen;
    for (size_t k = 0; k < m.size(); ++k) {
      const Obj& o = w.objs[m[k]];
      CHECK(names[k] == o.name, where << ": list " << li << "[" << k << "] is named '" << names[k] << "', model '" << o.name << "'");
      CHECK(seen.insert(names[k]).second, where << ": list " << li << " holds the name '" << names[k] << "' twice");
      const Parameter& p = pl[k];
      CHECK(vf::sameBits(p.getValue(), o.v), where << ": list " << li << " '" << o.name << "' = " << p.getValue() << ", model " << o.v);
      CHECK(p.hasConstraint() == (o.cons >= 0), where << ": list " << li << " '" << o.name << "' constraint presence " << p.hasConstraint() << " model " << showC(o.cons));
      if (o.cons >= 0) {
        auto ic = dynamic_pointer_cast<const IntervalConstraint>(p.getConstraint());
        CHECK(ic && ic->getLowerBound() == POOL[o.cons].lo && ic->getUpperBound() == POOL[o.cons].hi && ic->strictLowerBound() == !POOL[o.cons].il && ic->strictUpperBound() == !POOL[o.cons].iu,
              where << ": list " << li << " '" << o.name << "' carries " << p.getConstraint()->getDescription() << ", model " << showC(o.cons));
        CHECK(acc(o.cons, p.getValue()), where << ": '" << o.name << "' holds a value its constraint rejects");
      }
      // lookups address exactly the named entry
      CHECK(pl.hasParameter(o.name), where << ": hasParameter('" << o.name << "') false");
      CHECK(pl.whichParameterHasName(o.name) == k, where << ": whichParameterHasName('" << o.name << "')");
      CHECK(&pl.parameter(o.name) == &p && pl.getParameter(o.name).get() == &p, where << ": parameter(name) returns another object");
      CHECK(vf::sameBits(pl.getParameterValue(o.name), o.v), where << ": getParameterValue");
    }
    for (const char* n : NAMES) if (!seen.count(n)) CHECK(!pl.hasParameter(n), where << ": hasParameter('" << n << "') true for an absent name");
  }
  // sharing structure: same model object <=> same Parameter object
  for (size_t a = 0; a < w.L.size(); ++a) for (size_t b = a; b < w.L.size(); ++b)
    for (size_t i = 0; i < w.M[a].size(); ++i) for (size_t j = 0; j < w.M[b].size(); ++j) {
      if (a == b && i == j) continue;
      bool same = w.L[a]->getParameter(i).get() == w.L[b]->getParameter(j).get();
      CHECK(same == (w.M[a][i] == w.M[b][j]), where << ": list" << a << "[" << i << "] and list" << b << "[" << j << "] " << (same ? "are the same object but should be independent" : "should be the same shared object but are distinct"));
    }
}

// build a fresh source list (not one of the three) with chosen names / values
struct Src { ParameterList pl; vector<Obj> e; };
Src genSrc(vf::Ctx& c, const World& w, const vector<int>& target, bool mostlyAcceptable) {
  Src s; int n = c.irange(0, 6); set<string> used;
  // one third of the "not mostly acceptable" sources: every entry acceptable except one that is not the first
  int forcedBad = -2; if (!mostlyAcceptable && c.oneIn(3)) { mostlyAcceptable = true; forcedBad = c.irange(1, 5); }
  for (int k = 0; k < n; ++k) {
    string nm;
    if (!target.empty() && !c.oneIn(4)) nm = w.objs[target[c.below(target.size())]].name; else nm = NAMES[c.below(10)];
    if (!used.insert(nm).second) continue;
    int t = w.find(target, nm);
    double v = (t >= 0 && mostlyAcceptable && (forcedBad != -2 || !c.oneIn(5))) ? insideVal(c, w.objs[target[t]].cons) : anyVal(c);
    if (t >= 0 && static_cast<int>(s.e.size()) == forcedBad && w.objs[target[t]].cons >= 0) v = -1.5;   // rejected by every pool constraint except ]-inf;3]
    if (t >= 0 && c.oneIn(4)) v = w.objs[target[t]].v;       // same value: "nothing changed" entries
    else if (t >= 0 && c.oneIn(6)) {                          // a value that differs from the current one by the smallest possible amount
      double cur = w.objs[target[t]].v; int dir = c.flag() ? 1 : -1;
      v = cur == 0 ? dir * c.pick({5e-324, 1e-300, 1e-21}) : vf::ulpStep(cur, dir);
    }
    int cons = c.oneIn(3) ? static_cast<int>(c.below(NPOOL)) : -1; if (!acc(cons, v)) cons = -1;
    s.e.push_back({nm, v, cons}); s.pl.addParameter(Parameter(nm, v, mk(cons)));
  }
  return s;
}
string showSrc(const Src& s) { ostringstream o; o << "{"; for (auto& e : s.e) o << e.name << "=" << vf::dec(e.v) << (e.cons >= 0 ? ":" + showC(e.cons) : "") << " "; o << "}"; return o.str(); }
}  // namespace

LAW(L1_list_history, RC, 30000, 1500000, 400, "a bulk update whose rejected entry is not the first targeted one, or a name collision, or a mutation after copy/share") {
  World w; w.M.resize(3); for (int k = 0; k < 3; ++k) w.L.emplace_back(new ParameterList());
  bool ntRejectNotFirst = false, ntCollision = false, ntMutAfterShare = false, sharedOrCopied = false;
  {  // initial population of list 0 (so that bulk operations have targets from the first operation on)
    int n0 = c.irange(0, 7); c.desc << "L0={";
    for (int k = 0; k < n0; ++k) { string nm = NAMES[c.below(10)]; if (w.find(w.M[0], nm) >= 0) continue; int cons = c.oneIn(3) ? -1 : static_cast<int>(c.below(NPOOL)); double v = insideVal(c, cons);
      w.L[0]->addParameter(Parameter(nm, v, mk(cons))); w.M[0].push_back(w.newObj({nm, v, cons})); c.desc << nm << "=" << v << ":" << showC(cons) << " "; }
    c.desc << "}; ";
  }
  int nops = c.irange(1, 30);
  for (int op = 0; op < nops; ++op) {
    size_t A = c.weighted({3, 1, 1}), B = (A + 1 + c.below(2)) % 3;
    ParameterList& la = *w.L[A]; vector<int>& ma = w.M[A]; ParameterList& lb = *w.L[B]; vector<int>& mb = w.M[B];
    int kind = static_cast<int>(c.below(30));
    c.desc << (op ? "; " : "") << "L" << A << ".";
    switch (kind) {
      case 0: case 1: case 2: case 3: {  // addParameter
        string nm = NAMES[c.below(10)]; int cons = c.oneIn(2) ? static_cast<int>(c.below(NPOOL)) : -1; double v = insideVal(c, cons); bool byPtr = c.flag();
        c.desc << "addParameter(" << nm << "=" << v << ":" << showC(cons) << (byPtr ? ",ptr)" : ")");
        bool dup = w.find(ma, nm) >= 0;
        try {
          if (byPtr) { unique_ptr<Parameter> p(new Parameter(nm, v, mk(cons))); if (!dup) la.addParameter(p.release()); else la.addParameter(p.get()); }
          else la.addParameter(Parameter(nm, v, mk(cons)));
          CHECK(!dup, "addParameter accepted the already present name '" << nm << "'");
          ma.push_back(w.newObj({nm, v, cons}));
        } catch (ParameterException&) { CHECK(dup, "addParameter raised for the new name '" << nm << "'"); ntCollision = true; c.desc << "!"; }
        break; }
      case 4: {  // addParameters(B)
        c.desc << "addParameters(L" << B << ")";
        bool dup = false; for (int id : mb) if (w.find(ma, w.objs[id].name) >= 0) dup = true;
        size_t before = ma.size();
        try { la.addParameters(lb); CHECK(!dup, "addParameters accepted a list containing an already present name"); for (int id : mb) ma.push_back(w.newObj(w.objs[id])); }
        catch (ParameterException&) {
          CHECK(dup, "addParameters raised although no name collides"); ntCollision = true; c.desc << "!";
          // partial result allowed: a prefix of B's entries may have been appended (as copies)
          CHECK(la.size() >= before && la.size() - before <= mb.size(), "addParameters: size after a refused call");
          for (size_t k = before; k < la.size(); ++k) ma.push_back(w.newObj(w.objs[mb[k - before]]));
        }
        break; }
      case 5: case 6: {  // includeParameters(src) / shareParameters(B)
        bool share = kind == 6;
        if (share) {
          c.desc << "shareParameters(L" << B << ")";
          // expected: existing names -> value update (may raise), new names -> the same object
          bool willRaise = false; size_t firstBad = 0;
          for (size_t k = 0; k < mb.size(); ++k) { int t = w.find(ma, w.objs[mb[k]].name); if (t >= 0 && !acc(w.objs[ma[t]].cons, w.objs[mb[k]].v) && w.objs[ma[t]].v != w.objs[mb[k]].v) { willRaise = true; firstBad = k; break; } }
          try {
            la.shareParameters(lb); CHECK(!willRaise, "shareParameters returned although a value update is rejected");
            for (int id : mb) { int t = w.find(ma, w.objs[id].name); if (t >= 0) w.objs[ma[t]].v = w.objs[id].v; else ma.push_back(id); }
            sharedOrCopied = true;
          } catch (ConstraintException&) {
            CHECK(willRaise, "shareParameters raised although every value update is acceptable"); c.desc << "!";
            for (size_t k = 0; k < firstBad; ++k) { int id = mb[k]; int t = w.find(ma, w.objs[id].name); if (t >= 0) w.objs[ma[t]].v = w.objs[id].v; else ma.push_back(id); }
          }
        } else {
          Src s = genSrc(c, w, ma, true); c.desc << "includeParameters(" << showSrc(s) << ")";
          bool willRaise = false; size_t firstBad = 0;
          for (size_t k = 0; k < s.e.size(); ++k) { int t = w.find(ma, s.e[k].name); if (t >= 0 && !acc(w.objs[ma[t]].cons, s.e[k].v) && w.objs[ma[t]].v != s.e[k].v) { willRaise = true; firstBad = k; break; } }
          try {
            la.includeParameters(s.pl); CHECK(!willRaise, "includeParameters returned although a value update is rejected");
            for (auto& e : s.e) { int t = w.find(ma, e.name); if (t >= 0) w.objs[ma[t]].v = e.v; else ma.push_back(w.newObj(e)); }
          } catch (ConstraintException&) {
            CHECK(willRaise, "includeParameters raised although every value update is acceptable"); c.desc << "!";
            for (size_t k = 0; k < firstBad; ++k) { auto& e = s.e[k]; int t = w.find(ma, e.name); if (t >= 0) w.objs[ma[t]].v = e.v; else ma.push_back(w.newObj(e)); }
          }
        }
        break; }
      case 7: {  // shareParameter (one)
        if (mb.empty()) { c.desc << "nop"; break; }
        size_t k = c.below(mb.size()); int id = mb[k]; c.desc << "shareParameter(L" << B << "[" << k << "])";
        int t = w.find(ma, w.objs[id].name);
        bool bad = t >= 0 && !acc(w.objs[ma[t]].cons, w.objs[id].v) && w.objs[ma[t]].v != w.objs[id].v;
        try { la.shareParameter(lb.getParameter(k)); CHECK(!bad, "shareParameter returned although the value update is rejected"); if (t >= 0) w.objs[ma[t]].v = w.objs[id].v; else { ma.push_back(id); sharedOrCopied = true; } }
        catch (ConstraintException&) { CHECK(bad, "shareParameter raised for an acceptable value"); c.desc << "!"; }
        break; }
      case 8: {  // setParameter(index, param) : same name or a name absent from the list
        size_t idx = c.below(ma.size() + 2); string nm;
        if (idx < ma.size() && c.flag()) nm = w.objs[ma[idx]].name; else { nm = NAMES[c.below(10)]; if (w.find(ma, nm) >= 0 && !(idx < ma.size() && w.objs[ma[idx]].name == nm)) { c.desc << "nop"; break; } }
        int cons = c.oneIn(2) ? static_cast<int>(c.below(NPOOL)) : -1; double v = insideVal(c, cons);
        c.desc << "setParameter(" << idx << "," << nm << "=" << v << ":" << showC(cons) << ")";
        try { la.setParameter(idx, Parameter(nm, v, mk(cons))); CHECK(idx < ma.size(), "setParameter accepted an out-of-range index"); ma[idx] = w.newObj({nm, v, cons}); }
        catch (IndexOutOfBoundsException&) { CHECK(idx >= ma.size(), "setParameter raised for a valid index"); c.desc << "!"; }
        break; }
      case 9: case 10: {  // setParameterValue
        string nm = (!ma.empty() && !c.oneIn(5)) ? w.objs[ma[c.below(ma.size())]].name : NAMES[c.below(10)]; double v = anyVal(c);
        c.desc << "setParameterValue(" << nm << "," << v << ")"; int t = w.find(ma, nm);
        try { la.setParameterValue(nm, v); CHECK(t >= 0, "setParameterValue accepted a missing name"); CHECK(acc(w.objs[ma[t]].cons, v) || w.objs[ma[t]].v == v, "setParameterValue accepted a rejected value"); w.objs[ma[t]].v = v; if (sharedOrCopied) ntMutAfterShare = true; }
        catch (ParameterNotFoundException&) { CHECK(t < 0, "setParameterValue: ParameterNotFoundException for a present name"); c.desc << "!"; }
        catch (ConstraintException&) { CHECK(t >= 0 && !acc(w.objs[ma[t]].cons, v), "setParameterValue: ConstraintException for an acceptable value"); c.desc << "!"; }
        break; }
      case 11: case 12: case 13: case 14: case 15: case 16: {  // the three atomic bulk value setters (+ test)
        int route = kind <= 12 ? 0 : kind <= 14 ? 1 : 2;   // 0 setParametersValues 1 matchParametersValues 2 setAllParametersValues
        bool testOnly = false; if (route == 1 && c.oneIn(4)) testOnly = true;
        Src s = genSrc(c, w, ma, c.flag());
        if (route == 2 && !c.oneIn(4)) {  // make the source cover every name of A
          for (int id : ma) if (!s.pl.hasParameter(w.objs[id].name)) { double v = c.oneIn(6) ? anyVal(c) : insideVal(c, w.objs[id].cons); s.e.push_back({w.objs[id].name, v, -1}); s.pl.addParameter(Parameter(w.objs[id].name, v)); }
        }
        bool useVec = c.flag();
        // the other list itself as the source: it may hold the very same objects as the target (shared entries) next to entries of its own
        bool fromSlot = route == 1 && !mb.empty() && c.oneIn(3);
        if (fromSlot) { s.e.clear(); for (int id : mb) s.e.push_back(w.objs[id]); c.desc << "[source=L" << B << "]"; }
        const ParameterList& srcList = fromSlot ? lb : s.pl;
        c.desc << (route == 0 ? "setParametersValues" : route == 1 ? (testOnly ? "testParametersValues" : useVec ? "matchParametersValues+vec" : "matchParametersValues") : "setAllParametersValues") << showSrc(s);
        // model
        bool missing = false; if (route == 2) for (int id : ma) { bool f = false; for (auto& e : s.e) if (e.name == w.objs[id].name) f = true; if (!f) missing = true; }
        int firstBadPos = -1, targeted = 0; vector<size_t> changedPos;
        for (size_t k = 0; k < s.e.size(); ++k) { int t = w.find(ma, s.e[k].name); if (t < 0) continue; if (!acc(w.objs[ma[t]].cons, s.e[k].v)) { if (firstBadPos < 0) firstBadPos = targeted; } if (w.objs[ma[t]].v != s.e[k].v) changedPos.push_back(k); ++targeted; }
        bool anyBad = firstBadPos >= 0;
        vector<Obj> snapshot = w.objs;
        vector<size_t> upd; bool ret = false;
        try {
          if (route == 0) la.setParametersValues(srcList);
          else if (route == 1) ret = testOnly ? la.testParametersValues(srcList) : la.matchParametersValues(srcList, useVec ? &upd : nullptr);
          else la.setAllParametersValues(srcList);
          CHECK(!(route == 2 && missing), "setAllParametersValues returned although the source lacks one of the list's names");
          CHECK(!anyBad, "bulk update returned although a targeted value is rejected by its constraint (rejected entry is targeted entry #" << firstBadPos << ")");
          if (!testOnly) for (auto& e : s.e) { int t = w.find(ma, e.name); if (t >= 0) w.objs[ma[t]].v = e.v; }
          if (route == 1) {
            CHECK(ret == !changedPos.empty(), "match/testParametersValues returned " << ret << " but " << changedPos.size() << " targeted value(s) differed");
            if (useVec && !testOnly) CHECK(upd == changedPos, "matchParametersValues: reported positions differ from the entries whose value differed (reported " << upd.size() << ", expected " << changedPos.size() << ")");
          }
          if (sharedOrCopied && !changedPos.empty() && !testOnly) ntMutAfterShare = true;
        } catch (ConstraintException&) {
          CHECK(anyBad, "bulk update raised ConstraintException although every targeted value is acceptable"); c.desc << "!";
          CHECK(!(route == 2 && missing) || true, "");
          w.objs = snapshot;  // nothing may have changed: audit below compares every value of every list
          if (firstBadPos > 0) ntRejectNotFirst = true;
        } catch (ParameterNotFoundException&) {
          CHECK(route == 2 && missing, "bulk update raised ParameterNotFoundException unexpectedly"); c.desc << "!"; w.objs = snapshot;
        }
        break; }
      case 17: case 18: case 19: {  // whole-parameter setters
        int route = kind - 17;  // 0 setAllParameters (needs B superset of A)  1 setParameters (needs src subset of A)  2 matchParameters
        Src s = genSrc(c, w, ma, true);
        if (route == 0) for (int id : ma) if (!s.pl.hasParameter(w.objs[id].name)) { int cons = w.objs[id].cons; double v = insideVal(c, cons); s.e.push_back({w.objs[id].name, v, cons}); s.pl.addParameter(Parameter(w.objs[id].name, v, mk(cons))); }
        if (route == 1) { Src f; for (auto& e : s.e) if (w.find(ma, e.name) >= 0) { f.e.push_back(e); f.pl.addParameter(Parameter(e.name, e.v, mk(e.cons))); } s.e = f.e; s.pl = f.pl; }
        c.desc << (route == 0 ? "setAllParameters" : route == 1 ? "setParameters" : "matchParameters") << showSrc(s);
        if (route == 0) la.setAllParameters(s.pl); else if (route == 1) la.setParameters(s.pl); else la.matchParameters(s.pl);
        for (auto& e : s.e) { int t = w.find(ma, e.name); if (t >= 0) { w.objs[ma[t]].v = e.v; w.objs[ma[t]].cons = e.cons; } }
        break; }
      case 20: {  // deleteParameter(name)
        string nm = (!ma.empty() && !c.oneIn(4)) ? w.objs[ma[c.below(ma.size())]].name : NAMES[c.below(10)]; int t = w.find(ma, nm);
        c.desc << "deleteParameter(" << nm << ")";
        try { la.deleteParameter(nm); CHECK(t >= 0, "deleteParameter accepted a missing name"); ma.erase(ma.begin() + t); }
        catch (ParameterNotFoundException&) { CHECK(t < 0, "deleteParameter raised for a present name"); c.desc << "!"; }
        break; }
      case 21: {  // deleteParameters(names, mustExist)
        bool must = c.flag(); vector<string> nms; set<string> u;
        for (int id : ma) if (c.flag()) { nms.push_back(w.objs[id].name); u.insert(w.objs[id].name); }
        if (!must) for (int k = 0; k < 2; ++k) { string n = NAMES[c.below(10)]; if (u.insert(n).second) nms.push_back(n); }
        for (size_t k = nms.size(); k > 1; --k) swap(nms[k - 1], nms[c.below(k)]);
        c.desc << "deleteParameters({"; for (auto& n : nms) c.desc << n << " "; c.desc << "}," << must << ")";
        la.deleteParameters(nms, must);
        for (auto& n : nms) { int t = w.find(ma, n); if (t >= 0) ma.erase(ma.begin() + t); }
        break; }
      case 22: {  // deleteParameter(index) / deleteParameters(indices)
        if (c.flag()) {
          size_t idx = c.below(ma.size() + 2); c.desc << "deleteParameter(#" << idx << ")";
          try { la.deleteParameter(idx); CHECK(idx < ma.size(), "deleteParameter(index) accepted an out-of-range index"); ma.erase(ma.begin() + static_cast<long>(idx)); }
          catch (IndexOutOfBoundsException&) { CHECK(idx >= ma.size(), "deleteParameter(index) raised for a valid index"); c.desc << "!"; }
        } else {
          vector<size_t> idx; for (size_t k = 0; k < ma.size(); ++k) if (c.flag()) idx.push_back(k);
          bool oob = c.oneIn(5); if (oob) idx.push_back(ma.size() + c.below(2));
          for (size_t k = idx.size(); k > 1; --k) swap(idx[k - 1], idx[c.below(k)]);   // unsorted, repeat-free
          c.desc << "deleteParameters(#{"; for (auto i : idx) c.desc << i << " "; c.desc << "})";
          try { la.deleteParameters(idx); CHECK(!oob, "deleteParameters(indices) accepted an out-of-range index");
            vector<size_t> s2 = idx; sort(s2.rbegin(), s2.rend()); for (auto i : s2) ma.erase(ma.begin() + static_cast<long>(i)); }
          catch (IndexOutOfBoundsException&) { CHECK(oob, "deleteParameters(indices) raised for valid indices"); c.desc << "!"; }
        }
        break; }
      case 23: case 24: {  // createSubList -> stored in slot B (independent copies)
        int form = static_cast<int>(c.below(4)); vector<int> res; unique_ptr<ParameterList> out;
        if (form == 0) {
          vector<string> nms; set<string> u; for (int id : ma) if (c.flag()) nms.push_back(w.objs[id].name);
          bool miss = c.oneIn(6); if (miss) { string n = NAMES[c.below(10)]; if (w.find(ma, n) < 0) nms.push_back(n); else miss = false; }
          for (size_t k = nms.size(); k > 1; --k) swap(nms[k - 1], nms[c.below(k)]);
          if (!miss && !nms.empty() && c.oneIn(6)) {  // a repeated name: refused, or answered with a list whose names are still unique
            nms.insert(nms.begin() + static_cast<long>(c.below(nms.size() + 1)), nms[c.below(nms.size())]);
            c.desc << "createSubList(repeated name {"; for (auto& n : nms) c.desc << n << " "; c.desc << "})";
            try { ParameterList r = la.createSubList(nms); vector<string> rn = r.getParameterNames(); set<string> u2(rn.begin(), rn.end());
              CHECK(u2.size() == rn.size(), "createSubList with a repeated name returned a list that holds a name twice"); }
            catch (ParameterException&) { c.desc << "!"; ntCollision = true; }
            break;
          }
          c.desc << "createSubList({"; for (auto& n : nms) c.desc << n << " "; c.desc << "})->L" << B;
          try { out.reset(new ParameterList(la.createSubList(nms))); CHECK(!miss, "createSubList accepted a missing name"); for (auto& n : nms) res.push_back(w.newObj(w.objs[ma[w.find(ma, n)]])); }
          catch (ParameterNotFoundException&) { CHECK(miss, "createSubList raised although every name is present"); c.desc << "!"; break; }
        } else if (form == 1) {
          if (ma.empty()) { c.desc << "nop"; break; } size_t k = c.below(ma.size()); c.desc << "createSubList(" << w.objs[ma[k]].name << ")->L" << B;
          out.reset(new ParameterList(la.createSubList(w.objs[ma[k]].name))); res.push_back(w.newObj(w.objs[ma[k]]));
        } else if (form == 2) {
          vector<size_t> idx; for (size_t k = 0; k < ma.size(); ++k) if (c.flag()) idx.push_back(k);
          for (size_t k = idx.size(); k > 1; --k) swap(idx[k - 1], idx[c.below(k)]);
          // positions beyond the list: the code skips them silently (undocumented); raising would be as good, reading past the end is not
          if (c.oneIn(4)) idx.insert(idx.begin() + static_cast<long>(c.below(idx.size() + 1)), ma.size() + c.pick<size_t>({0, 0, 1, 5, 1000000}));
          c.desc << "createSubList(#{"; for (auto i : idx) c.desc << i << " "; c.desc << "})->L" << B;
          try { out.reset(new ParameterList(la.createSubList(idx))); } catch (Exception&) { c.desc << "!"; break; } catch (std::out_of_range&) { c.desc << "!"; break; }
          for (auto i : idx) if (i < ma.size()) res.push_back(w.newObj(w.objs[ma[i]]));
        } else {
          if (ma.empty()) { c.desc << "nop"; break; } size_t k = c.below(ma.size()); c.desc << "createSubList(#" << k << ")->L" << B;
          out.reset(new ParameterList(la.createSubList(k))); res.push_back(w.newObj(w.objs[ma[k]]));
        }
        w.L[B] = std::move(out); w.M[B] = res; sharedOrCopied = true;
        break; }
      case 25: {  // shareSubList -> slot B observes the very same objects
        vector<int> res; unique_ptr<ParameterList> out;
        if (c.flag()) {
          vector<string> nms; for (int id : ma) if (c.flag()) nms.push_back(w.objs[id].name);
          for (size_t k = nms.size(); k > 1; --k) swap(nms[k - 1], nms[c.below(k)]);
          c.desc << "shareSubList({"; for (auto& n : nms) c.desc << n << " "; c.desc << "})->L" << B;
          out.reset(new ParameterList(la.shareSubList(nms))); for (auto& n : nms) res.push_back(ma[w.find(ma, n)]);
        } else {
          vector<size_t> idx; for (size_t k = 0; k < ma.size(); ++k) if (c.flag()) idx.push_back(k);
          for (size_t k = idx.size(); k > 1; --k) swap(idx[k - 1], idx[c.below(k)]);
          if (c.oneIn(4)) idx.insert(idx.begin() + static_cast<long>(c.below(idx.size() + 1)), ma.size() + c.pick<size_t>({0, 0, 1, 5, 1000000}));
          c.desc << "shareSubList(#{"; for (auto i : idx) c.desc << i << " "; c.desc << "})->L" << B;
          try { out.reset(new ParameterList(la.shareSubList(idx))); } catch (Exception&) { c.desc << "!"; break; } catch (std::out_of_range&) { c.desc << "!"; break; }
          for (auto i : idx) if (i < ma.size()) res.push_back(ma[i]);
        }
        w.L[B] = std::move(out); w.M[B] = res; sharedOrCopied = true;
        break; }
      case 26: {  // getCommonParametersWith(src): copies of the source's entries whose names are in A, in source order
        Src s = genSrc(c, w, ma, true); c.desc << "getCommonParametersWith" << showSrc(s);
        ParameterList r = la.getCommonParametersWith(s.pl); size_t k = 0;
        for (auto& e : s.e) if (w.find(ma, e.name) >= 0) { CHECK(k < r.size() && r[k].getName() == e.name && r[k].getValue() == e.v, "getCommonParametersWith: entry " << k); CHECK(&r[k] != &s.pl.parameter(e.name), "getCommonParametersWith shares the source object"); ++k; }
        CHECK(k == r.size(), "getCommonParametersWith returned " << r.size() << " entries, expected " << k);
        break; }
      case 27: {  // copy-construct / assign
        if (c.oneIn(5)) {  // self-assignment (also through an alias of the same list): content and object identity must survive
          ParameterList& alias = *w.L[A]; c.desc << "assignTo(itself)";
          la = alias;
          CHECK(la.size() == ma.size(), "self-assignment changed the size of the list from " << ma.size() << " to " << la.size());
          w.M[A] = w.cloneList(ma);   // the entries may be re-cloned: they are new objects for the sharing check
          sharedOrCopied = true; break;
        }
        if (c.flag()) { c.desc << "copy->L" << B; w.L[B].reset(new ParameterList(la)); } else { c.desc << "assignTo(L" << B << ")"; *w.L[B] = la; }
        w.M[B] = w.cloneList(ma); sharedOrCopied = true;
        break; }
      case 28: { c.desc << "reset()"; la.reset(); ma.clear(); break; }
      default: {  // direct mutation of one entry through the list (value inside its constraint): visible through shares, not through copies
        if (ma.empty()) { c.desc << "nop"; break; }
        size_t k = c.below(ma.size()); double v = insideVal(c, w.objs[ma[k]].cons); c.desc << "[" << k << "].setValue(" << v << ")";
        la[k].setValue(v); w.objs[ma[k]].v = v; if (sharedOrCopied) ntMutAfterShare = true;
        break; }
    }
    audit(w, "after op");
  }
  c.nt(ntRejectNotFirst || ntCollision || ntMutAfterShare);
  if (ntRejectNotFirst) c.label("bulk_reject_not_first");
  if (ntCollision) c.label("name_collision");
  if (ntMutAfterShare) c.label("mutation_after_copy_or_share");
  CHECK(vf::auditOffences() == 0, "run-time monitor: " << vf::auditFirst());
}

// ------------------------------------------------------------------ owner routes
namespace {
struct Owner : public AbstractParametrizable {
  vector<vector<string>> fired;
  explicit Owner(const string& ns) : AbstractParametrizable(ns) {}
  Owner* clone() const override { return new Owner(*this); }
  void add(Parameter* p) { addParameter_(p); }
  void fireParameterChanged(const ParameterList& pl) override { fired.push_back(pl.getParameterNames()); }
};
}
LAW(L2_owner_bulk, RC, 20000, 800000, 200, "a bulk update through the owner with a rejected entry that is not the first, or a match with a mix of changed and unchanged entries") {
  string ns = c.flag() ? "" : "ns.";
  Owner o(ns); vector<Obj> m; int n = c.irange(1, 6);
  for (int k = 0; k < n; ++k) { int cons = c.oneIn(2) ? static_cast<int>(c.below(NPOOL)) : -1; double v = insideVal(c, cons); m.push_back({ns + NAMES[k], v, cons}); o.add(new Parameter(ns + NAMES[k], v, mk(cons))); }
  c.desc << "owner(ns='" << ns << "'){"; for (auto& e : m) c.desc << e.name << "=" << e.v << ":" << showC(e.cons) << " "; c.desc << "}";
  bool nt = false;
  int nops = c.irange(1, 10);
  for (int op = 0; op < nops; ++op) {
    int route = static_cast<int>(c.below(4)); o.fired.clear();
    if (route == 3) {
      size_t k = c.below(m.size()); double v = anyVal(c); string sn = NAMES[k];
      c.desc << "; setParameterValue(" << sn << "," << v << ")";
      try { o.setParameterValue(sn, v); CHECK(acc(m[k].cons, v) || m[k].v == v, "owner.setParameterValue accepted a rejected value"); m[k].v = v;
        CHECK(o.fired.size() == 1 && o.fired[0] == vector<string>{m[k].name}, "owner.setParameterValue must notify exactly the changed parameter"); }
      catch (ConstraintException&) { CHECK(!acc(m[k].cons, v), "owner.setParameterValue raised for an acceptable value"); c.desc << "!"; CHECK(o.fired.empty(), "notification sent although the update was refused"); }
    } else {
      ParameterList src; vector<Obj> se; set<string> used; int ns2 = c.irange(0, 7);
      for (int k = 0; k < ns2; ++k) { string nm = ns + NAMES[c.below(8)]; if (!used.insert(nm).second) continue; int t = -1; for (size_t j = 0; j < m.size(); ++j) if (m[j].name == nm) t = static_cast<int>(j);
        double v = (t >= 0 && !c.oneIn(5)) ? insideVal(c, m[t].cons) : anyVal(c); if (t >= 0 && c.oneIn(3)) v = m[t].v; se.push_back({nm, v, -1}); src.addParameter(Parameter(nm, v)); }
      if (route == 2) for (auto& e : m) if (!src.hasParameter(e.name)) { double v = c.oneIn(6) ? anyVal(c) : insideVal(c, e.cons); se.push_back({e.name, v, -1}); src.addParameter(Parameter(e.name, v)); }
      c.desc << "; " << (route == 0 ? "setParametersValues{" : route == 1 ? "matchParametersValues{" : "setAllParametersValues{"); for (auto& e : se) c.desc << e.name << "=" << e.v << " "; c.desc << "}";
      int firstBad = -1, targeted = 0; vector<string> changed;
      for (auto& e : se) for (auto& t : m) if (t.name == e.name) { if (!acc(t.cons, e.v) && firstBad < 0) firstBad = targeted; if (t.v != e.v) changed.push_back(e.name); ++targeted; }
      vector<Obj> before = m; bool ret = false;
      try {
        if (route == 0) o.setParametersValues(src); else if (route == 1) ret = o.matchParametersValues(src); else o.setAllParametersValues(src);
        CHECK(firstBad < 0, "owner bulk update returned although a targeted value is rejected");
        for (auto& e : se) for (auto& t : m) if (t.name == e.name) t.v = e.v;
        if (route == 1) {
          CHECK(ret == !changed.empty(), "owner.matchParametersValues returned " << ret << " with " << changed.size() << " differing entries");
          if (ret) { CHECK(o.fired.size() == 1 && o.fired[0] == changed, "owner.matchParametersValues must notify exactly the entries whose value differed (notified " << (o.fired.empty() ? 0 : o.fired[0].size()) << ", expected " << changed.size() << ")"); }
          else CHECK(o.fired.empty(), "notification although nothing changed");
          if (!changed.empty() && changed.size() < static_cast<size_t>(targeted)) nt = true;
        }
      } catch (ConstraintException&) { CHECK(firstBad >= 0, "owner bulk update raised although all values acceptable"); c.desc << "!"; m = before; CHECK(o.fired.empty(), "notification sent although the bulk update was refused"); if (firstBad > 0) nt = true; }
    }
    for (auto& e : m) CHECK(vf::sameBits(o.getParameters().parameter(e.name).getValue(), e.v), "owner parameter '" << e.name << "' = " << o.getParameters().parameter(e.name).getValue() << ", model " << e.v);
  }
  c.nt(nt);
  CHECK(vf::auditOffences() == 0, "run-time monitor: " << vf::auditFirst());
}

static struct Init { Init() { vf::G().resetHook = [] { vf::quietBpp(); vf::installAudit(); }; } } init_;
VF_MAIN("C02")
