// C12 — numerical derivatives are transparent and exact on low-degree polynomials.
// Laws of DESIGN.md section 5/C12:
//   L1_history      (T) transparency, (D) accuracy, (B) bounds, (N) delegation after every update of a history
//   L2_config_enum  the same oracle, exhaustively over scheme x constructor kind x ordered selection x entry point
//                   x named subset on one fixed quadratic
//   L3_halving      halving the step divides the truncation error by 2^order (central stencils)
//   L4_narrow_box   a selected variable that cannot be probed at all (box narrower than every attempted step)
//   L5_narrow_geometry  boxes narrower than the probe reach on BOTH sides of the point (lower bound, middle, upper bound,
//                   next to either bound), every scheme, short histories through every entry point
// L1 histories also re-select the variables to differentiate on the SAME wrapper (setParametersToDerivate again): the
// delegation clause (N) must hold for a variable dropped from the selection, at once and after every later update.
//
// Narrow boxes (both x-reach and x+reach infeasible; reach = H, 2H for the five-point scheme).  The statement promises
// "next to a constraint the first and second derivatives fall back to one-sided probes instead of raising", the code
// retries with halved steps on alternating sides (two/three-point, down to H/16; the depth is not documented).  Asserted:
// no exception, transparency, and
//   * two/three-point, a probe at H/8 fits on one side: d1 (and d2) finite and within the mean-value truncation bounds
//     below (probes within H of x; exact for degree <= 1 resp. <= 2) plus rounding on the OBSERVED stencil spacing s
//     (smallest distance between two points of {x} + logged probes of that variable): 24*eps*F/s, 32*eps*F/s^2;
//   * otherwise (narrower, or five-point, which has no halving): NaN, or a finite value within the same bounds.
//
// Parameter precision (L1, L3, L4, L5): the function's parameters carry the default precision (0) mostly, else a coarse one
// (1e-9 .. 2^-5); Parameter::setValue ignores a move of at most precision/2.  Requested values stay on a grid coarser than
// the precision; the oracle uses the step actually taken (two/three-point: max(H, precision of the parameter handed over),
// exactness does not depend on it).  Updates in which the unchanged library lets a probe be ignored are the input class of
// the known finding C12-coarse-precision-ignored-probe (Oracle::movesHonoured).
//
// The wrapped function is the harness polynomial PolyFn: value and analytic derivatives are evaluated in long double
// and rounded once, so one evaluation carries an error of <= 0.5 ulp of F = sum |coefficient * monomial|.
//
// Tolerances (frozen, DESIGN section 5/C12; H = (1+|x|)*h is the step the header documents):
//   rounding     R1 = 24*eps*F/H      R2 = 32*eps*F/H^2      Rcross = 32*eps*F/(Ha*Hb)
//                (for the three-point one-sided fallback the stencil spacing is H/2, which takes the place of H; the
//                five-point second derivative has absolute weight sum 64/12 against 4 of the three-point one: R2 = 48*eps*F/H^2)
//   calibration: thorough tier on the unchanged tree (564k histories) and 2 x 20000 histories on a copy with the proposed
//                fixes and no exclusion; worst seen, in units eps*F/H, eps*F/H^2, eps*F/HaHb:
//                d1 central 3.0 of 24, 3-point one-sided 3.3 of 48; d2 3-point central 2.9 of 32, one-sided 14.1 of 128,
//                5-point central 4.9 of 48, one-sided 3.4 of 48; cross 0.37 of 32.
//   truncation   2-point            d1: H/2*M2
//                3-point central    d1: H^2/6*M3     d2: H^2/12*M4    cross: Ha^2/6*M31 + Hb^2/6*M13
//                3-point one-sided  d1: H*M2         d2: H*M3         (mean value theorem, probes within H of x)
//                5-point central    d1: H^4/30*M5    d2: H^4/90*M6
//                5-point one-sided  d1: H/2*M2       d2: 2H*M3
//   Mk = upper bound of |k-th partial derivative| over the probe box (sum of absolute values of the terms), so the
//   truncation part is exactly 0 for the degrees a stencil differentiates exactly.
#include "common/pbt.hpp"
#include "common/bppcommon.hpp"

#include <Bpp/Numeric/AbstractParametrizable.h>
#include <Bpp/Numeric/Function/FivePointsNumericalDerivative.h>
#include <Bpp/Numeric/Function/Functions.h>
#include <Bpp/Numeric/Function/ThreePointsNumericalDerivative.h>
#include <Bpp/Numeric/Function/TwoPointsNumericalDerivative.h>

#include <typeinfo>

using namespace bpp;
using namespace std;

namespace {

const double INF = std::numeric_limits<double>::infinity();
const long double EPSL = DBL_EPSILON;
const int MAXV = 4;
typedef long double LD;

string nm(int j) { return "x" + to_string(j); }

// ------------------------------------------------------------------ polynomial (reference, from the definition)
struct Term { int e[MAXV]; double c; };
struct Poly {
  int n = 1;
  vector<Term> t;
  int degree() const { int d = 0; for (auto& m : t) { int s = 0; for (int j = 0; j < n; ++j) s += m.e[j]; d = max(d, s); } return d; }
  // partial derivative of orders k[] at x; absolute: sum of absolute values of the terms (upper bound over |x_j| <= x[j])
  LD D(const int* k, const LD* x, bool absolute) const {
    LD s = 0;
    for (auto& m : t) {
      LD v = m.c;
      for (int j = 0; j < n; ++j) {
        if (k[j] > m.e[j]) { v = 0; break; }
        for (int q = 0; q < k[j]; ++q) v *= (m.e[j] - q);
        for (int q = 0; q < m.e[j] - k[j]; ++q) v *= x[j];
      }
      s += absolute ? fabsl(v) : v;
    }
    return s;
  }
  LD D1(int i, int order, const LD* x, bool absolute) const { int k[MAXV] = {0, 0, 0, 0}; k[i] = order; return D(k, x, absolute); }
  LD D2(int a, int oa, int b, int ob, const LD* x, bool absolute) const { int k[MAXV] = {0, 0, 0, 0}; k[a] += oa; k[b] += ob; return D(k, x, absolute); }
  LD value(const vector<double>& x) const { LD xl[MAXV] = {0, 0, 0, 0}; for (int j = 0; j < n; ++j) xl[j] = x[j]; int k[MAXV] = {0, 0, 0, 0}; return D(k, xl, false); }
  string show() const {
    ostringstream os;
    for (size_t q = 0; q < t.size(); ++q) {
      os << (q ? " + " : "") << "(" << t[q].c << ")";
      for (int j = 0; j < n; ++j) if (t[q].e[j]) { os << "*x" << j; if (t[q].e[j] > 1) os << "^" << t[q].e[j]; }
    }
    return os.str();
  }
};

struct Box { bool has = false; double lo = -INF, hi = INF; bool il = true, iu = true; };
bool acc(const Box& b, double v) { return !b.has || ((b.il ? v >= b.lo : v > b.lo) && (b.iu ? v <= b.hi : v < b.hi)); }
string show(const Box& b) { if (!b.has) return "free"; return string(b.il ? "[" : "]") + vf::dec(b.lo) + ";" + vf::dec(b.hi) + (b.iu ? "]" : "["); }
double midOf(const Box& b) {
  if (!b.has) return 0;
  if (std::isfinite(b.lo) && std::isfinite(b.hi)) return b.lo / 2 + b.hi / 2;
  if (std::isfinite(b.lo)) return b.lo + 1;
  if (std::isfinite(b.hi)) return b.hi - 1;
  return 0;
}

// ------------------------------------------------------------------ the wrapped function
class PolyFn : public virtual SecondOrderDerivable, public AbstractParametrizable {
public:
  Poly P;
  double fval_ = 0;
  bool en1_ = true, en2_ = true;
  vector<double> d1_, d2_;        // analytic derivatives of the point of the last evaluation made while enabled (NaN otherwise)
  long nEval = 0, nRaise = 0;
  vector<vector<double>> log;     // every evaluation point
  vector<Box> box;

  PolyFn(const Poly& p, const vector<Box>& bx, const vector<double>& x0, const vector<double>& prec) : AbstractParametrizable(""), P(p), box(bx) {
    for (int j = 0; j < P.n; ++j)
      addParameter_(new Parameter(nm(j), x0[j], bx[j].has ? make_shared<IntervalConstraint>(bx[j].lo, bx[j].hi, bx[j].il, bx[j].iu) : nullptr,
                                  static_cast<size_t>(j) < prec.size() ? prec[static_cast<size_t>(j)] : 0.));
    d1_.assign(P.n, 0); d2_.assign(P.n * P.n, 0);
    fireParameterChanged(getParameters());
  }
  PolyFn* clone() const override { return new PolyFn(*this); }

  void setParameters(const ParameterList& pl) override {
    try { matchParametersValues(pl); } catch (ConstraintException&) { ++nRaise; throw; }
  }
  double getValue() const override { return fval_; }
  vector<double> point() const { vector<double> x(P.n); for (int j = 0; j < P.n; ++j) x[j] = getParameterValue(nm(j)); return x; }

  void fireParameterChanged(const ParameterList&) override {
    vector<double> x = point();
    LD xl[MAXV] = {0, 0, 0, 0}; for (int j = 0; j < P.n; ++j) xl[j] = x[j];
    ++nEval; log.push_back(x);
    fval_ = static_cast<double>(P.value(x));
    for (int a = 0; a < P.n; ++a) {
      d1_[a] = en1_ ? static_cast<double>(P.D1(a, 1, xl, false)) : std::nan("");
      for (int b = 0; b < P.n; ++b) d2_[a * P.n + b] = en2_ ? static_cast<double>(P.D2(a, 1, b, 1, xl, false)) : std::nan("");
    }
  }
  int idx(const string& v) const { for (int j = 0; j < P.n; ++j) if (v == nm(j)) return j; throw Exception("PolyFn: unknown variable " + v); }
  void enableFirstOrderDerivatives(bool yn) override { en1_ = yn; }
  bool enableFirstOrderDerivatives() const override { return en1_; }
  void enableSecondOrderDerivatives(bool yn) override { en2_ = yn; }
  bool enableSecondOrderDerivatives() const override { return en2_; }
  double getFirstOrderDerivative(const string& v) const override {
    if (!en1_) throw Exception("PolyFn: first order derivatives are disabled");
    return d1_[idx(v)];
  }
  double getSecondOrderDerivative(const string& v) const override {
    if (!en2_) throw Exception("PolyFn: second order derivatives are disabled");
    int a = idx(v); return d2_[a * P.n + a];
  }
  double getSecondOrderDerivative(const string& v1, const string& v2) const override {
    if (!en2_) throw Exception("PolyFn: second order derivatives are disabled");
    return d2_[idx(v1) * P.n + idx(v2)];
  }
};

// ------------------------------------------------------------------ configuration of a case
const char* SCHEME[] = {"2pt", "3pt", "5pt"};
const char* KIND[] = {"Function", "FirstOrderDerivable", "SecondOrderDerivable"};
const char* ENTRY[] = {"setParameters", "setAllParametersValues", "setParameterValue", "setParametersValues", "matchParametersValues", "f"};
const char CROSS_AT_LIMIT[] = "Could not compute cross derivatives at limit";

struct Cfg {
  int scheme = 0;   // 0: two, 1: three, 2: five points
  int kind = 0;     // static type handed to the constructor
  double h = 1e-4; bool setH = false;
  vector<int> sel;  // selected variables, in order
  bool cross = false;
  Poly P;
  vector<Box> box;
  vector<double> prec;   // Parameter precision of the wrapped function's parameters (empty / 0: the default)
  double precOf(int j) const { return static_cast<size_t>(j) < prec.size() ? prec[static_cast<size_t>(j)] : 0.; }
  string show() const {
    ostringstream os;
    os << SCHEME[scheme] << "(" << KIND[kind] << ") h=" << vf::dec(h) << (setH ? "" : "(default)") << " f=" << P.show() << " box{";
    for (int j = 0; j < P.n; ++j) os << (j ? "," : "") << ::show(box[j]);
    os << "}";
    for (int j = 0; j < P.n; ++j) if (precOf(j) > 0) os << " precision(x" << j << ")=" << vf::dec(precOf(j));
    os << " derivate(";
    for (size_t q = 0; q < sel.size(); ++q) os << (q ? "," : "") << "x" << sel[q];
    os << ")" << (cross ? " cross" : "");
    return os.str();
  }
};

struct Sys {
  Cfg cfg;
  shared_ptr<PolyFn> fn;
  unique_ptr<AbstractNumericalDerivative> w;
  vector<double> cur;   // model: the requested point
  vector<double> listPrec;   // precision carried by the parameter the latest update handed over for each variable (0: plain list)
  bool updated = false;         // some update went through the wrapper (its getValue() is a cache of the last update)
  bool analyticStale = false;   // known finding C12-noprobe-stale-analytic applies to the state the last update left
  bool selected(int j) const { return find(cfg.sel.begin(), cfg.sel.end(), j) != cfg.sel.end(); }

  Sys(const Cfg& c, const vector<double>& x0) : cfg(c), cur(x0), listPrec(x0.size(), 0.) {
    fn = make_shared<PolyFn>(c.P, c.box, x0, c.prec);
    shared_ptr<FunctionInterface> f0 = fn; shared_ptr<FirstOrderDerivable> f1 = fn; shared_ptr<SecondOrderDerivable> f2 = fn;
    switch (c.scheme) {
      case 0: w.reset(c.kind == 0 ? new TwoPointsNumericalDerivative(f0) : new TwoPointsNumericalDerivative(f1)); break;
      case 1: w.reset(c.kind == 0 ? new ThreePointsNumericalDerivative(f0) : c.kind == 1 ? new ThreePointsNumericalDerivative(f1) : new ThreePointsNumericalDerivative(f2)); break;
      default: w.reset(c.kind == 0 ? new FivePointsNumericalDerivative(f0) : c.kind == 1 ? new FivePointsNumericalDerivative(f1) : new FivePointsNumericalDerivative(f2)); break;
    }
    if (c.setH) w->setInterval(c.h);
    vector<string> names; for (int j : c.sel) names.push_back(nm(j));
    w->setParametersToDerivate(names);
    if (c.cross) w->enableSecondOrderCrossDerivatives(true);
  }
};

// outcome of a getter: value or the library's Exception
struct Got { bool raised = false; double v = 0; string what; };
template <class F> Got got(F f) {
  Got g;
  try { g.v = f(); }
  catch (ConstraintException&) { throw; }   // never acceptable from a getter
  catch (Exception& e) { g.raised = true; g.what = e.what(); }
  return g;
}

struct Tol { LD trunc1, trunc2, r1, r2; int mode; };   // mode 0 central, 1 one-sided, 2 borderline, 3 narrow (no full-step probe on either side)

// distance of x to the finite bounds of its box
void dist(const Box& b, double x, LD& dl, LD& du) {
  dl = (b.has && std::isfinite(b.lo)) ? static_cast<LD>(x) - b.lo : INFINITY;
  du = (b.has && std::isfinite(b.hi)) ? static_cast<LD>(b.hi) - x : INFINITY;
}

struct Oracle {
  const Sys& s;
  // Hdoc: the documented step (1+|x|)*h; H: the step of the first/second derivative stencils, which the two- and
  // three-point schemes raise to the precision of the parameter handed over (a smaller move would be ignored by it)
  LD absx[MAXV] = {0, 0, 0, 0}, xl[MAXV] = {0, 0, 0, 0}, H[MAXV] = {0, 0, 0, 0}, Hdoc[MAXV] = {0, 0, 0, 0}, F = 0;
  explicit Oracle(const Sys& sys) : s(sys) {
    for (int j = 0; j < s.cfg.P.n; ++j) {
      xl[j] = s.cur[j];
      H[j] = Hdoc[j] = (1. + std::abs(s.cur[j])) * s.cfg.h;   // the documented step
      if (s.cfg.scheme != 2 && static_cast<LD>(s.listPrec[static_cast<size_t>(j)]) > H[j]) H[j] = s.listPrec[static_cast<size_t>(j)];
      absx[j] = fabsl(xl[j]) + 2 * H[j];
    }
    int k[MAXV] = {0, 0, 0, 0};
    F = s.cfg.P.D(k, absx, true);
  }
  Tol tol(int i) const {
    const Poly& P = s.cfg.P;
    LD h = H[i], M2 = P.D1(i, 2, absx, true), M3 = P.D1(i, 3, absx, true), M4 = P.D1(i, 4, absx, true), M5 = P.D1(i, 5, absx, true), M6 = P.D1(i, 6, absx, true);
    LD dl, du; dist(s.cfg.box[i], s.cur[i], dl, du);
    LD reach = s.cfg.scheme == 2 ? 2 * h : h, dlt = 1e-9L;
    bool centralSure = dl > reach * (1 + dlt) && du > reach * (1 + dlt);
    bool oneSure = dl < reach * (1 - dlt) || du < reach * (1 - dlt);
    Tol c{}, o{};
    switch (s.cfg.scheme) {
      case 0:
        c.trunc1 = o.trunc1 = h / 2 * M2; c.r1 = o.r1 = 24 * EPSL * F / h; c.trunc2 = o.trunc2 = c.r2 = o.r2 = 0; break;
      case 1:
        c.trunc1 = h * h / 6 * M3; c.trunc2 = h * h / 12 * M4; c.r1 = 24 * EPSL * F / h; c.r2 = 32 * EPSL * F / (h * h);
        o.trunc1 = h * M2; o.trunc2 = h * M3; o.r1 = 24 * EPSL * F / (h / 2); o.r2 = 32 * EPSL * F / (h / 2 * h / 2); break;
      default:
        c.trunc1 = h * h * h * h / 30 * M5; c.trunc2 = h * h * h * h / 90 * M6; c.r1 = 24 * EPSL * F / h; c.r2 = 48 * EPSL * F / (h * h);
        o.trunc1 = h / 2 * M2; o.trunc2 = 2 * h * M3; o.r1 = c.r1; o.r2 = c.r2; break;
    }
    if (centralSure) { c.mode = 0; return c; }
    if (dl < reach * (1 + dlt) && du < reach * (1 + dlt)) {   // narrow: any stencil within reach of x, mean-value bounds
      o.mode = 3;
      if (s.cfg.scheme == 2) { o.trunc1 = 2 * h * M2; o.trunc2 = 2 * h * M3; }
      return o;
    }
    if (oneSure) { o.mode = 1; return o; }
    Tol b; b.mode = 2; b.trunc1 = max(c.trunc1, o.trunc1); b.trunc2 = max(c.trunc2, o.trunc2); b.r1 = max(c.r1, o.r1); b.r2 = max(c.r2, o.r2);
    return b;
  }
  // narrow box: smallest distance between two points of the stencil {x_i} + {probes of x_i alone logged in this update}
  // (0 when no probe of x_i was evaluated)
  LD observedSpacing(int i) const {
    vector<LD> pts{0};
    for (auto& pt : s.fn->log) {
      bool alone = pt[static_cast<size_t>(i)] != s.cur[static_cast<size_t>(i)];
      for (int j = 0; j < s.cfg.P.n && alone; ++j) if (j != i && !vf::sameBits(pt[static_cast<size_t>(j)], s.cur[static_cast<size_t>(j)])) alone = false;
      if (alone) pts.push_back(static_cast<LD>(pt[static_cast<size_t>(i)]) - xl[i]);
    }
    if (pts.size() == 1) return 0;
    LD sp = INFINITY;
    for (size_t a = 0; a < pts.size(); ++a) for (size_t b = a + 1; b < pts.size(); ++b) if (pts[a] != pts[b]) sp = min(sp, fabsl(pts[a] - pts[b]));
    return sp;
  }
  // narrow box: the two- and three-point schemes must find a probe (one at an eighth of the documented step fits)
  bool mustProbe(int i) const {
    LD dl, du; dist(s.cfg.box[i], s.cur[i], dl, du);
    return s.cfg.scheme != 2 && max(dl, du) >= H[i] / 8 * (1 + 1e-9L);
  }
  // some corner of the central cross stencil of (a,b) may leave the box (within `factor` steps of a bound)
  bool nearBound(int a, LD factor) const {
    LD dl, du; dist(s.cfg.box[a], s.cur[a], dl, du);
    return dl <= Hdoc[a] * factor || du <= Hdoc[a] * factor;
  }
  // Parameter::setValue ignores a move of at most precision/2 from the value the parameter holds.  Smallest move the
  // stencil of x_i makes between two consecutive positions of the function's parameter: the step (central; five-point
  // in every geometry), half of it (one-sided fallback), step/1024 (narrow box: up to ten halvings); cross stencils
  // (documented step, never raised) reach their first corner from a one-sided probe at half a step.
  bool movesHonoured(int i) const {
    LD P = s.cfg.precOf(i); if (P <= 0) return true;
    int mode = tol(i).mode;
    LD m = s.cfg.scheme == 2 || mode == 0 ? H[i] : mode == 3 ? H[i] / 1024 : H[i] / 2;
    return m > P / 2 * (1 + 1e-9L);
  }
  bool crossMovesHonoured(int i) const { LD P = s.cfg.precOf(i); return P <= 0 || Hdoc[i] / 2 > P / 2 * (1 + 1e-9L); }
};

// known finding (proposed): a probe closer than precision/2 to the position the function's parameter holds is silently
// ignored by Parameter::setValue and the value there is used as if it had been taken at the probe (derivatives 0 or
// arbitrary): the five-point scheme and the cross stencils never raise the step, the two/three-point schemes raise it
// to the precision of the parameter handed over (0 for a plain list) and halve it below that on one-sided retries.
const char PRECISION_IGNORED[] = "C12-coarse-precision-ignored-probe";
void excludeIgnoredProbes(vf::Ctx& c, const Sys& s, const vector<bool>& named) {
  bool coarse = false; for (int j = 0; j < s.cfg.P.n; ++j) coarse |= s.cfg.precOf(j) > 0;
  if (!coarse) return;
  c.label("coarse_precision");
  Oracle o(s); int cnt = 0;
  for (int j : s.cfg.sel) if (named[static_cast<size_t>(j)]) ++cnt;
  for (int j : s.cfg.sel) if (named[static_cast<size_t>(j)]) {
    if (o.H[j] > o.Hdoc[j]) c.label("step_raised_to_precision");
    if (!o.movesHonoured(j)) c.excludeIfKnown(PRECISION_IGNORED);
    if (s.cfg.scheme == 1 && s.cfg.cross && cnt >= 2 && !o.crossMovesHonoured(j)) c.excludeIfKnown(PRECISION_IGNORED);
  }
}
// requested values stay on a grid coarser than the precision: a value within precision/2 of the current one is itself
// ignored by Parameter::setValue (the statement says nothing about which of the two the function then holds)
double onGrid(double v, double cur, double prec) { return prec > 0 && v != cur && std::abs(v - cur) <= prec ? cur : v; }

// ------------------------------------------------------------------ the oracle applied after an update
// named[j]: variable j was in the list of the latest update.
void checkAfter(vf::Ctx& c, Sys& s, const vector<bool>& named, const string& where) {   // s: only analyticStale is written
  const Cfg& g = s.cfg; const Poly& P = g.P; const int n = P.n;
  Oracle o(s);
  vector<int> ns;   // named and selected, in selection order
  for (int j : g.sel) if (named[j]) ns.push_back(j);
  bool crossActive = g.scheme == 1 && g.cross && ns.size() >= 2;

  // ---- (D) cross derivatives (3-point only): checked first, they do not depend on the state left behind
  if (crossActive) {
    for (int a : ns) for (int b : ns) {
      Got r = got([&] { return s.w->getSecondOrderDerivative(nm(a), nm(b)); });
      CHECK(!r.raised, where << ": cross derivative (x" << a << ",x" << b << ") of two selected variables raised: " << r.what);
      if (a == b) {
        Got d2 = got([&] { return s.w->getSecondOrderDerivative(nm(a)); });
        CHECK(!d2.raised && vf::sameBits(r.v, d2.v), where << ": cross derivative (x" << a << ",x" << a << ")=" << vf::dec(r.v) << " differs from the second derivative " << vf::dec(d2.v));
        continue;
      }
      LD ref = P.D2(a, 1, b, 1, o.xl, false);
      LD tr = o.Hdoc[a] * o.Hdoc[a] / 6 * P.D2(a, 3, b, 1, o.absx, true) + o.Hdoc[b] * o.Hdoc[b] / 6 * P.D2(a, 1, b, 3, o.absx, true);
      LD rr = 32 * EPSL * o.F / (o.Hdoc[a] * o.Hdoc[b]);
      LD err = fabsl(static_cast<LD>(r.v) - ref);
      if (tr == 0 && rr > 0) c.observe("cross_rounding_units(eps*F/HaHb)", static_cast<double>(err / (EPSL * o.F / (o.Hdoc[a] * o.Hdoc[b]))));
      bool ok = std::isfinite(r.v) && err <= tr + rr;
      CHECK(ok, where << ": cross derivative d2f/dx" << a << "dx" << b << " = " << vf::dec(r.v) << " but analytic " << vf::dec(static_cast<double>(ref))
                      << ", error " << vf::dec(static_cast<double>(err)) << " > truncation " << vf::dec(static_cast<double>(tr)) << " + rounding " << vf::dec(static_cast<double>(rr)));
    }
  }

  // ---- (T) transparency
  double expect = static_cast<double>(P.value(s.cur));
  for (int j = 0; j < n; ++j) {
    double v = s.fn->getParameterValue(nm(j));
    CHECK(vf::sameBits(v, s.cur[j]), where << ": wrapped function holds x" << j << "=" << vf::dec(v) << " (" << vf::hexd(v) << ") but " << vf::dec(s.cur[j]) << " (" << vf::hexd(s.cur[j])
                                           << ") was requested; off by " << vf::dec(v - s.cur[j]) << " after " << s.fn->nEval << " evaluations");
    CHECK(vf::sameBits(s.w->getParameterValue(nm(j)), s.cur[j]), where << ": wrapper reports x" << j << "=" << vf::dec(s.w->getParameterValue(nm(j))));
  }
  CHECK(vf::sameBits(s.fn->getValue(), expect), where << ": wrapped function value " << vf::dec(s.fn->getValue()) << " is not the polynomial at the requested point, " << vf::dec(expect));
  CHECK(!s.updated || vf::sameBits(s.w->getValue(), expect), where << ": wrapper getValue()=" << vf::dec(s.w->getValue()) << " but the polynomial at the requested point is " << vf::dec(expect));
  for (auto& pt : s.fn->log) for (int j = 0; j < n; ++j) CHECK(acc(g.box[j], pt[j]), where << ": the function was evaluated outside its box at x" << j << "=" << vf::dec(pt[j]));

  // ---- (D)+(B) first and second derivatives of the selected variables named in this update
  for (int i : ns) {
    Tol t = o.tol(i);
    LD ref1 = P.D1(i, 1, o.xl, false), ref2 = P.D1(i, 2, o.xl, false);
    Got d1 = got([&] { return s.w->getFirstOrderDerivative(nm(i)); });
    CHECK(!d1.raised, where << ": first derivative of selected x" << i << " raised: " << d1.what);
    LD e1 = fabsl(static_cast<LD>(d1.v) - ref1);
    static const char* M[] = {"central", "onesided", "borderline", "narrow"};
    if (t.mode == 3) {   // no full-step probe on either side of x_i
      c.label("narrow_box");
      LD sp = o.observedSpacing(i); bool probed = sp > 0, must = o.mustProbe(i);
      if (!probed) sp = o.H[i] / 512;
      LD r1 = 24 * EPSL * o.F / sp, r2 = (g.scheme == 2 ? 48 : 32) * EPSL * o.F / (sp * sp);
      Got d2 = got([&] { return s.w->getSecondOrderDerivative(nm(i)); });
      ostringstream geo; LD dl, du; dist(g.box[i], s.cur[i], dl, du);
      geo << "x" << i << "=" << vf::dec(s.cur[i]) << " in " << show(g.box[i]) << ", H=" << vf::dec(static_cast<double>(o.H[i])) << ", room " << vf::dec(static_cast<double>(dl)) << " below and " << vf::dec(static_cast<double>(du))
          << " above, " << (probed ? "probes " + vf::dec(static_cast<double>(sp)) + " apart" : string("no probe evaluated"));
      if (std::isnan(d1.v)) {
        CHECK(!must, where << ": df/dx" << i << " is NaN although a one-sided probe at an eighth of the step fits (" << geo.str() << ")");
        c.label("narrow_box_nan");
      } else {
        if (t.trunc1 == 0 && probed) c.observe(string("d1_rounding_units(eps*F/spacing)_") + SCHEME[g.scheme] + "_narrow", static_cast<double>(e1 / (EPSL * o.F / sp)));
        CHECK(std::isfinite(d1.v) && e1 <= t.trunc1 + r1, where << ": df/dx" << i << " = " << vf::dec(d1.v) << " but analytic " << vf::dec(static_cast<double>(ref1)) << " (narrow box: " << geo.str() << "); error "
                                                            << vf::dec(static_cast<double>(e1)) << " > truncation " << vf::dec(static_cast<double>(t.trunc1)) << " + rounding " << vf::dec(static_cast<double>(r1)));
      }
      if (g.scheme == 0) { CHECK(d2.raised, where << ": the two-point scheme returned a second derivative " << vf::dec(d2.v) << " (documented: not available)"); continue; }
      CHECK(!d2.raised, where << ": second derivative of selected x" << i << " raised: " << d2.what);
      if (std::isnan(d2.v)) {
        CHECK(!must, where << ": d2f/dx" << i << "^2 is NaN although a one-sided probe at an eighth of the step fits (" << geo.str() << ")");
      } else {
        LD e2 = fabsl(static_cast<LD>(d2.v) - ref2);
        if (t.trunc2 == 0 && probed) c.observe(string("d2_rounding_units(eps*F/spacing^2)_") + SCHEME[g.scheme] + "_narrow", static_cast<double>(e2 / (EPSL * o.F / (sp * sp))));
        CHECK(std::isfinite(d2.v) && e2 <= t.trunc2 + r2, where << ": d2f/dx" << i << "^2 = " << vf::dec(d2.v) << " but analytic " << vf::dec(static_cast<double>(ref2)) << " (narrow box: " << geo.str() << "); error "
                                                            << vf::dec(static_cast<double>(e2)) << " > truncation " << vf::dec(static_cast<double>(t.trunc2)) << " + rounding " << vf::dec(static_cast<double>(r2)));
      }
      continue;
    }
    if (t.trunc1 == 0) c.observe(string("d1_rounding_units(eps*F/H)_") + SCHEME[g.scheme] + "_" + M[t.mode], static_cast<double>(e1 / (EPSL * o.F / o.H[i])));
    CHECK(std::isfinite(d1.v) && e1 <= t.trunc1 + t.r1, where << ": df/dx" << i << " = " << vf::dec(d1.v) << " but analytic " << vf::dec(static_cast<double>(ref1)) << " (" << M[t.mode] << " stencil, H=" << vf::dec(static_cast<double>(o.H[i]))
                                                                 << "); error " << vf::dec(static_cast<double>(e1)) << " > truncation " << vf::dec(static_cast<double>(t.trunc1)) << " + rounding " << vf::dec(static_cast<double>(t.r1)));
    Got d2 = got([&] { return s.w->getSecondOrderDerivative(nm(i)); });
    if (g.scheme == 0) { CHECK(d2.raised, where << ": the two-point scheme returned a second derivative " << vf::dec(d2.v) << " (documented: not available)"); continue; }
    CHECK(!d2.raised, where << ": second derivative of selected x" << i << " raised: " << d2.what);
    LD e2 = fabsl(static_cast<LD>(d2.v) - ref2);
    if (t.trunc2 == 0) c.observe(string("d2_rounding_units(eps*F/H^2)_") + SCHEME[g.scheme] + "_" + M[t.mode], static_cast<double>(e2 / (EPSL * o.F / (o.H[i] * o.H[i]))));
    CHECK(std::isfinite(d2.v) && e2 <= t.trunc2 + t.r2, where << ": d2f/dx" << i << "^2 = " << vf::dec(d2.v) << " but analytic " << vf::dec(static_cast<double>(ref2)) << " (" << M[t.mode] << " stencil, H=" << vf::dec(static_cast<double>(o.H[i]))
                                                                 << "); error " << vf::dec(static_cast<double>(e2)) << " > truncation " << vf::dec(static_cast<double>(t.trunc2)) << " + rounding " << vf::dec(static_cast<double>(t.r2)));
  }
  // selected but not named: not recomputed by design (limitation) — measured only
  for (int i : g.sel) if (!named[i]) {
    Got d1 = got([&] { return s.w->getFirstOrderDerivative(nm(i)); });
    Tol t = o.tol(i);
    if (!d1.raised && !(fabsl(static_cast<LD>(d1.v) - P.D1(i, 1, o.xl, false)) <= t.trunc1 + t.r1)) c.label("stale_derivative_of_unnamed_variable");
  }

  // ---- (N) delegation for variables that are not selected
  // known finding: the last selected variable named in the update could not be probed and an
  // earlier one was: the perturbation is undone while the function's analytic derivatives are switched off and nothing
  // evaluates the function again once they are switched on -> the function's derivatives are stale (NaN for PolyFn).
  // (an update that evaluates nothing - same values, nothing probed - leaves the state of the previous one)
  if (!s.fn->log.empty()) s.analyticStale = ns.size() >= 2 && o.tol(ns.back()).mode == 3 && o.observedSpacing(ns.back()) == 0;
  if (s.analyticStale && g.kind >= 1 && c.isKnown("C12-noprobe-stale-analytic")) { c.label("delegation_not_checked_known_stale_analytic"); return; }
  LD xl[MAXV] = {0, 0, 0, 0}; for (int j = 0; j < n; ++j) xl[j] = s.cur[j];
  for (int j = 0; j < n; ++j) {
    if (s.selected(j)) continue;
    Got d1 = got([&] { return s.w->getFirstOrderDerivative(nm(j)); });
    if (g.kind >= 1) {
      double a = static_cast<double>(P.D1(j, 1, xl, false));
      CHECK(!d1.raised, where << ": first derivative of non-selected x" << j << " raised although the function provides it: " << d1.what);
      CHECK(vf::sameBits(d1.v, a), where << ": first derivative of non-selected x" << j << " = " << vf::dec(d1.v) << " but the function's analytic derivative at the requested point is " << vf::dec(a));
    } else CHECK(d1.raised, where << ": first derivative of non-selected x" << j << " returned " << vf::dec(d1.v) << " although the function has no derivative");
    Got d2 = got([&] { return s.w->getSecondOrderDerivative(nm(j)); });
    if (g.kind == 2 && g.scheme != 0) {
      double a = static_cast<double>(P.D1(j, 2, xl, false));
      CHECK(!d2.raised, where << ": second derivative of non-selected x" << j << " raised although the function provides it: " << d2.what);
      CHECK(vf::sameBits(d2.v, a), where << ": second derivative of non-selected x" << j << " = " << vf::dec(d2.v) << " but the function's analytic derivative at the requested point is " << vf::dec(a));
    } else CHECK(d2.raised, where << ": second derivative of non-selected x" << j << " returned " << vf::dec(d2.v) << " although nothing provides it");
  }
  // cross derivatives nobody computes numerically: delegated by the 3-point scheme, documented as unavailable otherwise
  for (int a = 0; a < n; ++a) for (int b = 0; b < n; ++b) {
    if (g.scheme == 1 && g.cross && s.selected(a) && s.selected(b)) continue;
    Got r = got([&] { return s.w->getSecondOrderDerivative(nm(a), nm(b)); });
    if (g.scheme == 1 && g.kind == 2) {
      double v = static_cast<double>(P.D2(a, 1, b, 1, xl, false));
      CHECK(!r.raised && vf::sameBits(r.v, v), where << ": cross derivative (x" << a << ",x" << b << ") not computed numerically: " << (r.raised ? "raised " + r.what : "returned " + vf::dec(r.v)) << ", the function's analytic value is " << vf::dec(v));
    } else CHECK(r.raised, where << ": cross derivative (x" << a << ",x" << b << ") returned " << vf::dec(r.v) << " although nothing provides it");
  }
}

// ------------------------------------------------------------------ one update through the wrapper
struct Upd { int entry; vector<int> order; vector<double> val; bool withCons; };

// returns false when the documented "cross derivatives at limit" exception ended the history
bool applyUpdate(vf::Ctx& c, Sys& s, const Upd& u, const string& where) {
  const int n = s.cfg.P.n;
  vector<bool> named(n, false);
  ParameterList pl;
  bool changes = false;
  for (size_t q = 0; q < u.order.size(); ++q) {
    int j = u.order[q]; named[j] = true;
    if (u.withCons) { Parameter p(s.fn->parameter(nm(j))); p.setValue(u.val[q]); pl.addParameter(p); }
    else pl.addParameter(Parameter(nm(j), u.val[q]));
    if (s.cur[j] != u.val[q]) changes = true;
  }
  for (size_t q = 0; q < u.order.size(); ++q) {
    s.cur[u.order[q]] = u.val[q];
    s.listPrec[static_cast<size_t>(u.order[q])] = (u.withCons || u.entry == 2) ? s.cfg.precOf(u.order[q]) : 0.;   // setParameterValue hands over the function's own parameter
  }
  excludeIgnoredProbes(c, s, named);
  s.fn->log.clear(); long raises0 = s.fn->nRaise;
  double expect = static_cast<double>(s.cfg.P.value(s.cur));
  {  // known finding: the cross-derivative loop of the three-point scheme mismanages which variables are perturbed
    int cnt = 0; for (int j : s.cfg.sel) if (named[j]) ++cnt;
    if (s.cfg.scheme == 1 && s.cfg.cross && cnt >= 2) c.excludeIfKnown("C12-cross-bookkeeping");
  }
  if (s.cfg.scheme == 2) {   // known finding: the five-point scheme lets the ConstraintException of its one-sided fallback escape
    Oracle o(s);             // when neither x-2H nor x+2H is feasible (function left perturbed, analytic derivatives left disabled)
    for (int j : s.cfg.sel) if (named[j] && o.tol(j).mode == 3) c.excludeIfKnown("C12-5pt-narrow-box");
  }
  try {
    switch (u.entry) {
      case 0: s.w->setParameters(pl); break;
      case 1: s.w->setAllParametersValues(pl); break;
      case 2: s.w->setParameterValue(nm(u.order[0]), u.val[0]); break;
      case 3: s.w->setParametersValues(pl); break;
      case 4: { bool r = s.w->matchParametersValues(pl); CHECK(r == changes, where << ": matchParametersValues returned " << r << " but " << (changes ? "a" : "no") << " value changed"); break; }
      default: { double r = s.w->f(pl); CHECK(vf::sameBits(r, expect), where << ": f() returned " << vf::dec(r) << " but the polynomial at the requested point is " << vf::dec(expect)); break; }
    }
  } catch (Exception& e) {
    if (typeid(e) != typeid(Exception) || string(e.what()).find(CROSS_AT_LIMIT) == string::npos || !(s.cfg.scheme == 1 && s.cfg.cross)) throw;
    // documented refusal: accepted only when a corner of a central cross stencil can leave the box
    Oracle o(s); bool near1 = false; int cnt = 0;
    for (int j : s.cfg.sel) if (named[j]) { ++cnt; near1 |= o.nearBound(j, 1 + 1e-9L); }
    CHECK(cnt >= 2 && near1, where << ": raised '" << e.what() << "' although every corner of every cross stencil lies inside the box");
    c.label("cross_at_limit_raised");
    return false;
  }
  if (s.fn->nRaise > raises0) c.label("probe_raised_in_function");
  c.observe("evaluations_per_update", static_cast<double>(s.fn->log.size()));
  s.updated = true;
  checkAfter(c, s, named, where);
  return true;
}

// a new selection on the same wrapper.  Nothing is recomputed by it (derivatives of the selected variables are those of
// the next update that names them); what must hold at once is (T) and (N): a variable that is not selected any more is
// delegated to the wrapped function, which still sits at the requested point with its analytic derivatives.
void reselect(vf::Ctx& c, Sys& s, const vector<int>& sel, int op) {
  bool dropped = false;
  for (int j : s.cfg.sel) if (find(sel.begin(), sel.end(), j) == sel.end()) dropped = true;
  vector<string> names; for (int j : sel) names.push_back(nm(j));
  c.desc << "; derivate(";
  for (size_t q = 0; q < sel.size(); ++q) c.desc << (q ? "," : "") << "x" << sel[q];
  c.desc << ")";
  s.w->setParametersToDerivate(names);
  s.cfg.sel = sel;
  c.label(dropped ? "reselect_dropping_a_variable" : "reselect");
  s.fn->log.clear();   // nothing is evaluated by a selection
  ostringstream wh; wh << "after selecting again before op " << op + 1;
  checkAfter(c, s, vector<bool>(static_cast<size_t>(s.cfg.P.n), false), wh.str());
}

// ------------------------------------------------------------------ generators
Poly genPoly(vf::Ctx& c, int n, int deg, int maxTerms) {
  Poly P; P.n = n;
  int nt = c.irange(1, maxTerms);
  for (int q = 0; q < nt; ++q) {
    Term t; for (int j = 0; j < MAXV; ++j) t.e[j] = 0;
    int d = q == 0 ? deg : c.irange(0, deg);
    for (int k = 0; k < d; ++k) t.e[c.below(n)]++;
    int64_t z = c.zig(12); t.c = z == 0 ? 1.0 : static_cast<double>(z) / 4;
    P.t.push_back(t);
  }
  return P;
}
// width of a narrow box in units of the documented step H = (1+|lo|)*h: below 2 no central three-point stencil fits
// anywhere, below 1 no full-step probe fits on either side, below 4 the same for the five-point scheme at some points;
// 0.126 is just above the asserted retry depth (H/8), 0.1 between it and the depth the code reaches (H/16), 0.03 below.
const double NARROW[] = {1.0, 0.5, 1.5, 0.25, 1.9, 0.75, 3.0, 0.126, 3.9, 0.1, 0.03, 2.5};
Box genNarrowBox(vf::Ctx& c, double h) {
  Box b; b.has = true;
  b.lo = static_cast<double>(c.zig(12)) / 2;
  b.hi = b.lo + c.pick(NARROW) * (1 + std::abs(b.lo)) * h;
  b.il = !c.oneIn(4); b.iu = !c.oneIn(4);
  return b;
}
bool isNarrow(const Box& b) { return b.has && std::isfinite(b.lo) && std::isfinite(b.hi) && b.hi - b.lo < 0.45; }
Box genBox(vf::Ctx& c, double h) {
  Box b;
  switch (c.weighted({3, 4, 1, 1, 2})) {
    case 0: return b;
    case 1: b.has = true; b.lo = static_cast<double>(c.zig(12)) / 2; b.hi = b.lo + c.pick({1.0, 0.5, 2.0, 4.0, 0.75}); break;
    case 2: b.has = true; b.lo = static_cast<double>(c.zig(12)) / 2; b.hi = INF; break;
    case 3: b.has = true; b.hi = static_cast<double>(c.zig(12)) / 2; b.lo = -INF; break;
    default: return genNarrowBox(c, h);
  }
  b.il = !c.oneIn(4); b.iu = !c.oneIn(4);
  return b;
}
// a point of a narrow box: middle, on / an ulp or a tiny fraction of the step away from either bound, anywhere
double genNarrowVal(vf::Ctx& c, const Box& b, double h) {
  double w = b.hi - b.lo, v, Hn = (1 + std::abs(b.hi)) * h;
  switch (c.weighted({2, 3, 3, 2, 2, 2})) {
    case 0: v = midOf(b); break;
    case 1: v = b.hi; if (c.oneIn(3)) v = vf::ulpStep(v, -static_cast<int>(c.irange(1, 3))); break;
    case 2: v = b.lo; if (c.oneIn(3)) v = vf::ulpStep(v, static_cast<int>(c.irange(1, 3))); break;
    case 3: { double t = c.pick({1.0 / 1024, 1.0 / 300, 1.0 / 64, 1.0 / 20, 1.0 / 8, 0.3}); v = c.flag() ? b.hi - t * Hn : b.lo + t * Hn; break; }
    case 4: v = b.lo + w * c.pick({0.25, 0.75, 0.1, 0.9, 0.4, 0.6}); break;
    default: v = c.real(b.lo, b.hi);
  }
  if (!acc(b, v) && v == b.hi) v = vf::ulpStep(v, -1);
  if (!acc(b, v) && v == b.lo) v = vf::ulpStep(v, 1);
  if (!acc(b, v) || !std::isfinite(v)) v = midOf(b);
  return v;
}
double genVal(vf::Ctx& c, const Box& b, double h) {
  if (isNarrow(b)) return genNarrowVal(c, b, h);
  double L = b.has && std::isfinite(b.lo) ? b.lo : -8, U = b.has && std::isfinite(b.hi) ? b.hi : 8;
  if (L > U - 0.5) { if (std::isfinite(b.lo) && b.has) U = L + 8; else L = U - 8; }
  double v;
  bool finLo = b.has && std::isfinite(b.lo), finHi = b.has && std::isfinite(b.hi);
  switch (c.weighted({4, 2, 4, 2})) {
    case 0: v = static_cast<double>(c.zig(32)) / 4; if (v < L || v > U) v = midOf(b); break;
    case 1: {   // on a bound
      bool up = c.flag(); if (up && !finHi) up = false; if (!up && !finLo) up = finHi;
      if (!finLo && !finHi) { v = 0; break; }
      v = up ? b.hi : b.lo; if (!acc(b, v)) v = vf::ulpStep(v, up ? -1 : 1);
      break; }
    case 2: {   // within a few steps of a bound
      bool up = c.flag(); if (up && !finHi) up = false; if (!up && !finLo) up = finHi;
      if (!finLo && !finHi) { v = c.real(-8, 8); break; }
      double bd = up ? b.hi : b.lo, Hn = (1 + std::abs(bd)) * h;
      double t = c.pick({1.0, 2.0, 0.5, 1.5, 2.5, 1e-3, 3.0, 0.999999, 1.000001, 2.000001, 1.999999});
      v = up ? bd - t * Hn : bd + t * Hn;
      if (c.oneIn(6)) v = vf::ulpStep(bd, up ? -static_cast<int>(c.irange(1, 3)) : static_cast<int>(c.irange(1, 3)));
      break; }
    default: v = c.real(L, U);
  }
  if (!acc(b, v) || !std::isfinite(v)) v = midOf(b);
  return v;
}
vector<int> genOrder(vf::Ctx& c, vector<int> items) {   // a random permutation (identity when all draws are 0)
  vector<int> out;
  while (!items.empty()) { size_t k = c.below(items.size()); out.push_back(items[k]); items.erase(items.begin() + static_cast<long>(k)); }
  return out;
}
double genH(vf::Ctx& c, bool& setH) {
  size_t k = c.weighted({3, 2, 2, 2, 2, 2});
  setH = k != 0;
  switch (k) { case 0: return 1e-4; case 1: return 1e-2; case 2: return 1e-3; case 3: return 1e-5; case 4: return 1e-6; default: return c.logu(1e-6, 1e-2); }
}

// Parameter precision of the wrapped function's parameters: the default (0) mostly, else one coarse value carried by all
// variables (mask 0) or by a subset.  A starved stream decodes as the default.
void genPrec(vf::Ctx& c, Cfg& g) {
  static const double PREC[] = {0, 1e-9, 1e-6, 0x1p-12, 0x1p-8, 0x1p-5, 1e-3};
  size_t k = c.weighted({24, 1, 1, 1, 2, 1, 1});
  if (k == 0) return;
  uint64_t mask = c.below(uint64_t(1) << g.P.n);
  g.prec.assign(static_cast<size_t>(g.P.n), 0.);
  for (int j = 0; j < g.P.n; ++j) if (mask == 0 || ((mask >> j) & 1)) g.prec[static_cast<size_t>(j)] = PREC[k];
}

}  // namespace

// ------------------------------------------------------------------ L1 histories
LAW(L1_history, RC, 30000, 1500000, 560, "a requested value within 2 steps of a bound, or a partial update list, or >=2 selected variables with cross derivatives") {
  Cfg g;
  g.scheme = static_cast<int>(c.weighted({2, 3, 2}));
  g.kind = static_cast<int>(c.below(g.scheme == 0 ? 2 : 3));
  g.h = genH(c, g.setH);
  int n = c.irange(1, MAXV), deg = c.irange(0, 5);
  g.P = genPoly(c, n, deg, 6);
  for (int j = 0; j < n; ++j) g.box.push_back(genBox(c, g.h));
  { vector<int> sub; for (int j = 0; j < n; ++j) if (!c.oneIn(4)) sub.push_back(j); g.sel = genOrder(c, sub); }
  g.cross = g.scheme == 1 && c.oneIn(4);
  vector<double> x0; for (int j = 0; j < n; ++j) x0.push_back(c.oneIn(3) ? genVal(c, g.box[j], g.h) : midOf(g.box[j]));
  genPrec(c, g);
  c.desc << g.show() << " start(";
  for (int j = 0; j < n; ++j) c.desc << (j ? "," : "") << vf::dec(x0[j]);
  c.desc << ")";
  Sys s(g, x0);
  bool nt = false;
  int nops = c.irange(1, 10);
  for (int op = 0; op < nops; ++op) {
    if (c.oneIn(5)) {   // select again on the same wrapper: any subset in any order (dropping, adding, permuting, same)
      vector<int> keep; for (int j = 0; j < n; ++j) if (c.flag()) keep.push_back(j);
      reselect(c, s, genOrder(c, keep), op);
    }
    Upd u;
    u.entry = static_cast<int>(c.weighted({3, 2, 2, 2, 2, 2}));
    u.withCons = c.flag();
    vector<int> sub;
    if (u.entry == 1) { for (int j = 0; j < n; ++j) sub.push_back(j); }
    else if (u.entry == 2) sub.push_back(static_cast<int>(c.below(n)));
    else if (c.flag()) { for (int j = 0; j < n; ++j) if (c.flag()) sub.push_back(j); }   // partial, possibly empty
    else { for (int j = 0; j < n; ++j) sub.push_back(j); }
    u.order = genOrder(c, sub);
    for (int j : u.order) u.val.push_back(c.oneIn(6) ? s.cur[j] : onGrid(genVal(c, g.box[j], g.h), s.cur[j], g.precOf(j)));
    c.desc << "; " << ENTRY[u.entry] << (u.withCons ? "" : "[plain]") << "(";
    for (size_t q = 0; q < u.order.size(); ++q) c.desc << (q ? "," : "") << "x" << u.order[q] << "=" << vf::dec(u.val[q]);
    c.desc << ")";
    // non-trivial by the stated rule
    if (static_cast<int>(u.order.size()) < n) nt = true;
    int nsel = 0;
    for (size_t q = 0; q < u.order.size(); ++q) {
      int j = u.order[q]; if (!s.selected(j)) continue; ++nsel;
      LD dl, du; dist(g.box[j], u.val[q], dl, du); LD H = (1 + std::abs(u.val[q])) * g.h;
      if (dl <= 2 * H || du <= 2 * H) { nt = true; c.label("near_bound"); }
    }
    if (g.cross && nsel >= 2) nt = true;
    c.nt(nt);
    ostringstream wh; wh << "after op " << op + 1 << " (" << ENTRY[u.entry] << ")";
    if (!applyUpdate(c, s, u, wh.str())) break;
  }
  c.nt(nt);
}

// ------------------------------------------------------------------ L2 exhaustive configurations on one quadratic
// f = x0^2 + 0.5*x0*x1 - x1*x2 + 0.25*x2^2 + 2*x1 + 1, x1 in [0;4]; first a full setParameters to (1, 0.5, -2), then one
// update through the chosen entry point to (0.5, b, 1) restricted to the named subset, b on the bound of x1 or inside.
LAW(L2_config_enum, ENUM, 0, 0, 0, "a partial update list, or x1 moved onto its bound, or cross derivatives with >=2 selected variables") {
  Cfg g;
  g.scheme = static_cast<int>(c.below(3));
  g.kind = static_cast<int>(c.below(g.scheme == 0 ? 2 : 3));
  g.h = 1e-3; g.setH = true;
  static const int SEL[16][3] = {{-1, -1, -1}, {0, -1, -1}, {1, -1, -1}, {2, -1, -1}, {0, 1, -1}, {1, 0, -1}, {0, 2, -1}, {2, 0, -1}, {1, 2, -1}, {2, 1, -1},
                                 {0, 1, 2}, {0, 2, 1}, {1, 0, 2}, {1, 2, 0}, {2, 0, 1}, {2, 1, 0}};
  size_t si = c.below(16);
  for (int q = 0; q < 3; ++q) if (SEL[si][q] >= 0) g.sel.push_back(SEL[si][q]);
  g.cross = g.scheme == 1 && g.sel.size() >= 2 && c.flag();
  g.P.n = 3;
  g.P.t = {{{2, 0, 0, 0}, 1.0}, {{1, 1, 0, 0}, 0.5}, {{0, 1, 1, 0}, -1.0}, {{0, 0, 2, 0}, 0.25}, {{0, 1, 0, 0}, 2.0}, {{0, 0, 0, 0}, 1.0}};
  g.box.assign(3, Box()); g.box[1].has = true; g.box[1].lo = 0; g.box[1].hi = 4;
  Upd u;
  u.entry = static_cast<int>(c.below(6));
  bool onBound = c.flag();
  unsigned mask = u.entry == 1 ? 7u : u.entry == 2 ? (1u << c.below(3)) : static_cast<unsigned>(c.below(8));
  bool rev = (si + mask) % 2 == 1;              // order of the list and kind of list are tied to the other choices
  u.withCons = (mask + static_cast<unsigned>(u.entry)) % 2 == 0;   // (both vary freely in L1)
  c.desc << g.show() << " entry " << ENTRY[u.entry] << (u.withCons ? "" : "[plain]") << " named mask " << mask << (rev ? " reversed" : "") << (onBound ? " x1->0 (on its bound)" : " x1->1.5");
  c.shardPoint();
  Sys s(g, {0.25, 2.0, 0.75});
  Upd first; first.entry = 0; first.withCons = true; first.order = {0, 1, 2}; first.val = {1.0, 0.5, -2.0};
  if (!applyUpdate(c, s, first, "after the initial full setParameters")) return;
  const double target[3] = {0.5, onBound ? 0.0 : 1.5, 1.0};
  for (int j = 0; j < 3; ++j) if (mask & (1u << j)) u.order.push_back(j);
  if (rev) reverse(u.order.begin(), u.order.end());
  for (int j : u.order) u.val.push_back(target[j]);
  c.nt(mask != 7u || (onBound && (mask & 2u)) || g.cross);
  applyUpdate(c, s, u, string("after ") + ENTRY[u.entry]);
}

// ------------------------------------------------------------------ L3 halving the step (metamorphic, central stencils)
// Polynomials whose truncation error is a single power of H: 2-point deg 2 (order 1); 3-point deg 3..4 (order 2, first,
// second and cross); 5-point deg 5 (order 4, first; second exact).  err(h/2) = err(h)/2^order up to rounding.
LAW(L3_halving, RC, 3000, 100000, 64, "the truncation error at step h exceeds 100 times the rounding bound") {
  Cfg g;
  g.scheme = static_cast<int>(c.weighted({1, 2, 1}));
  g.kind = 0;
  g.h = c.pick({1e-2, 1e-3, 5e-3, 2e-3}); g.setH = true;
  int n = c.irange(1, 3);
  int deg = g.scheme == 0 ? 2 : g.scheme == 1 ? c.irange(3, 4) : 5;
  g.P = genPoly(c, n, deg, 5);
  g.box.assign(n, Box());
  for (int j = 0; j < n; ++j) g.sel.push_back(j);
  g.cross = g.scheme == 1 && n >= 2 && c.flag();
  vector<double> x; for (int j = 0; j < n; ++j) x.push_back(c.flag() ? static_cast<double>(c.zig(16)) / 4 : c.real(-4, 4));
  genPrec(c, g);   // (plain lists: the step is never raised, only honoured or not)
  for (int j = 0; j < n; ++j) x[j] = onGrid(x[j], 0.0, g.precOf(j));
  Cfg g2 = g; g2.h = g.h / 2;
  c.desc << g.show() << " versus h/2 at (";
  for (int j = 0; j < n; ++j) c.desc << (j ? "," : "") << vf::dec(x[j]);
  c.desc << ")";
  vector<double> x0(n, 0.0);
  Sys s1(g, x0), s2(g2, x0);
  ParameterList pl; for (int j = 0; j < n; ++j) pl.addParameter(Parameter(nm(j), x[j]));
  s1.cur = x; s2.cur = x;
  if (g.cross) c.excludeIfKnown("C12-cross-bookkeeping");
  excludeIgnoredProbes(c, s1, vector<bool>(static_cast<size_t>(n), true)); excludeIgnoredProbes(c, s2, vector<bool>(static_cast<size_t>(n), true));
  s1.w->setParameters(pl); s2.w->setParameters(pl);
  Oracle o1(s1), o2(s2);
  const LD ratio = g.scheme == 0 ? 2 : g.scheme == 1 ? 4 : 16;
  bool nt = false;
  for (int i = 0; i < n; ++i) {
    LD ref1 = g.P.D1(i, 1, o1.xl, false), ref2 = g.P.D1(i, 2, o1.xl, false);
    Tol t1 = o1.tol(i), t2 = o2.tol(i);
    LD e1 = static_cast<LD>(s1.w->getFirstOrderDerivative(nm(i))) - ref1, e1h = static_cast<LD>(s2.w->getFirstOrderDerivative(nm(i))) - ref1;
    LD slack = t2.r1 + t1.r1 / ratio;
    if (fabsl(e1) > 100 * t1.r1) nt = true;
    CHECK(fabsl(e1h - e1 / ratio) <= slack, "df/dx" << i << ": error " << vf::dec(static_cast<double>(e1)) << " at h, " << vf::dec(static_cast<double>(e1h)) << " at h/2; expected ratio " << static_cast<double>(ratio)
                                                    << ", difference " << vf::dec(static_cast<double>(fabsl(e1h - e1 / ratio))) << " > rounding slack " << vf::dec(static_cast<double>(slack)));
    if (g.scheme == 0) continue;
    LD e2 = static_cast<LD>(s1.w->getSecondOrderDerivative(nm(i))) - ref2, e2h = static_cast<LD>(s2.w->getSecondOrderDerivative(nm(i))) - ref2;
    LD slack2 = t2.r2 + t1.r2 / ratio;
    if (fabsl(e2) > 100 * t1.r2) nt = true;
    CHECK(fabsl(e2h - e2 / ratio) <= slack2, "d2f/dx" << i << "^2: error " << vf::dec(static_cast<double>(e2)) << " at h, " << vf::dec(static_cast<double>(e2h)) << " at h/2; expected ratio " << static_cast<double>(ratio)
                                                      << ", difference " << vf::dec(static_cast<double>(fabsl(e2h - e2 / ratio))) << " > rounding slack " << vf::dec(static_cast<double>(slack2)));
  }
  if (g.cross) {
    for (int a = 0; a < n; ++a) for (int b = 0; b < n; ++b) {
      if (a == b) continue;
      LD ref = g.P.D2(a, 1, b, 1, o1.xl, false);
      LD e = static_cast<LD>(s1.w->getSecondOrderDerivative(nm(a), nm(b))) - ref, eh = static_cast<LD>(s2.w->getSecondOrderDerivative(nm(a), nm(b))) - ref;
      LD r1 = 32 * EPSL * o1.F / (o1.H[a] * o1.H[b]), r2 = 32 * EPSL * o2.F / (o2.H[a] * o2.H[b]);
      if (fabsl(e) > 100 * r1) nt = true;
      bool ok = fabsl(eh - e / 4) <= r2 + r1 / 4;
      CHECK(ok, "cross (x" << a << ",x" << b << "): error " << vf::dec(static_cast<double>(e)) << " at h, " << vf::dec(static_cast<double>(eh)) << " at h/2; expected ratio 4, rounding slack " << vf::dec(static_cast<double>(r2 + r1 / 4)));
    }
  }
  c.nt(nt);
}

// ------------------------------------------------------------------ L4 a variable that cannot be probed
// Two- and three-point schemes give up after ten attempts ("no possibility to compute derivatives").  Weakest reading:
// no exception, transparency holds, and the derivative of the unprobeable variable is either not a number or correct —
// never an arbitrary finite number.
LAW(L4_narrow_box, RC, 1500, 50000, 64, "at least two selected variables, one of them unprobeable") {
  Cfg g;
  g.scheme = static_cast<int>(c.below(2));
  g.kind = static_cast<int>(c.below(g.scheme == 0 ? 2 : 3));
  g.h = genH(c, g.setH);
  int n = c.irange(1, 3), deg = c.irange(1, 3);
  g.P = genPoly(c, n, deg, 4);
  g.box.assign(n, Box());
  int bad = static_cast<int>(c.below(n));
  double a = static_cast<double>(c.zig(8)) / 2;
  double H = (1 + std::abs(a)) * g.h;
  g.box[bad].has = true; g.box[bad].lo = a; g.box[bad].hi = c.flag() ? a : a + H / c.pick({40.0, 1000.0});
  { vector<int> all; for (int j = 0; j < n; ++j) all.push_back(j); g.sel = genOrder(c, all); }
  vector<double> x0(n, 0.0), x(n); x0[bad] = a;
  for (int j = 0; j < n; ++j) x[j] = j == bad ? a : static_cast<double>(c.zig(16)) / 4;
  genPrec(c, g);
  for (int j = 0; j < n; ++j) x[j] = onGrid(x[j], x0[j], g.precOf(j));
  c.desc << g.show() << " setParameters(";
  for (int j = 0; j < n; ++j) c.desc << (j ? "," : "") << vf::dec(x[j]);
  c.desc << "), x" << bad << " cannot move";
  c.nt(n >= 2);
  Sys s(g, x0);
  ParameterList pl; for (int j = 0; j < n; ++j) pl.addParameter(Parameter(nm(j), x[j]));
  s.cur = x;
  excludeIgnoredProbes(c, s, vector<bool>(static_cast<size_t>(n), true));
  s.w->setParameters(pl);
  Oracle o(s);
  // transparency
  if (g.sel[0] != bad) c.excludeIfKnown("C12-noprobe-restore");
  for (int j = 0; j < n; ++j) {
    double v = s.fn->getParameterValue(nm(j));
    CHECK(vf::sameBits(v, x[j]), "wrapped function holds x" << j << "=" << vf::dec(v) << " but " << vf::dec(x[j]) << " was requested (off by " << vf::dec(v - x[j]) << ")");
  }
  double expect = static_cast<double>(g.P.value(x));
  CHECK(vf::sameBits(s.fn->getValue(), expect) && vf::sameBits(s.w->getValue(), expect), "value " << vf::dec(s.w->getValue()) << " / " << vf::dec(s.fn->getValue()) << " is not the polynomial at the requested point " << vf::dec(expect));
  // the other variables are differentiated as usual
  for (int i : g.sel) {
    if (i == bad) continue;
    Tol ti = o.tol(i);
    LD e = fabsl(static_cast<LD>(s.w->getFirstOrderDerivative(nm(i))) - g.P.D1(i, 1, o.xl, false));
    CHECK(e <= ti.trunc1 + ti.r1, "df/dx" << i << " error " << vf::dec(static_cast<double>(e)) << " > " << vf::dec(static_cast<double>(ti.trunc1 + ti.r1)));
  }
  // derivative of the unprobeable variable
  Got d1 = got([&] { return s.w->getFirstOrderDerivative(nm(bad)); });
  CHECK(!d1.raised, "first derivative raised: " << d1.what);
  Tol t = o.tol(bad);
  LD ref = g.P.D1(bad, 1, o.xl, false);
  bool fine = std::isnan(d1.v) || fabsl(static_cast<LD>(d1.v) - ref) <= t.trunc1 + 1024 * t.r1;
  if (g.scheme == 0) c.excludeIfKnown("C12-2pt-noprobe");
  CHECK(fine, "df/dx" << bad << " = " << vf::dec(d1.v) << " although no probe of x" << bad << " was possible (analytic " << vf::dec(static_cast<double>(ref)) << "): an arbitrary finite number instead of NaN");
}

// ------------------------------------------------------------------ L5 narrow boxes: every geometry, every scheme
// At least one selected variable lives in a box narrower than the probe reach; requested values are the middle, the
// bounds, points an ulp / a small fraction of the step away from either bound, or anywhere in the box.  Short histories
// through every entry point, full and partial lists; oracle = checkAfter (T, D, B, N) after every update.
LAW(L5_narrow_geometry, RC, 6000, 300000, 260, "a selected variable named in the update has no full-step probe on either side") {
  Cfg g;
  g.scheme = static_cast<int>(c.weighted({3, 4, 1}));
  g.kind = static_cast<int>(c.below(g.scheme == 0 ? 2 : 3));
  g.h = genH(c, g.setH);
  int n = c.irange(1, 3), deg = c.irange(0, 4);
  g.P = genPoly(c, n, deg, 5);
  int first = static_cast<int>(c.below(static_cast<uint64_t>(n)));
  for (int j = 0; j < n; ++j) g.box.push_back(j == first || c.oneIn(3) ? genNarrowBox(c, g.h) : genBox(c, g.h));
  { vector<int> sub; for (int j = 0; j < n; ++j) if (j == first || !c.oneIn(4)) sub.push_back(j); g.sel = genOrder(c, sub); }
  g.cross = g.scheme == 1 && c.oneIn(6);
  vector<double> x0; for (int j = 0; j < n; ++j) x0.push_back(c.flag() ? genVal(c, g.box[j], g.h) : midOf(g.box[j]));
  int nops = c.irange(1, 3);
  vector<Upd> ops;
  for (int op = 0; op < nops; ++op) {
    Upd u;
    u.entry = static_cast<int>(c.weighted({3, 2, 2, 2, 2, 2}));
    u.withCons = c.flag();
    vector<int> sub;
    if (u.entry == 2) sub.push_back(c.flag() ? first : static_cast<int>(c.below(static_cast<uint64_t>(n))));
    else for (int j = 0; j < n; ++j) if (u.entry == 1 || j == first || !c.oneIn(3)) sub.push_back(j);
    u.order = genOrder(c, sub);
    for (int j : u.order) u.val.push_back(genVal(c, g.box[j], g.h));
    ops.push_back(u);
  }
  genPrec(c, g);   // after the draws of the history: committed replays decode unchanged
  c.desc << g.show() << " start(";
  for (int j = 0; j < n; ++j) c.desc << (j ? "," : "") << vf::dec(x0[j]);
  c.desc << ")";
  Sys s(g, x0);
  bool nt = false;
  for (int op = 0; op < nops; ++op) {
    Upd& u = ops[static_cast<size_t>(op)];
    for (size_t q = 0; q < u.order.size(); ++q) u.val[q] = onGrid(u.val[q], s.cur[static_cast<size_t>(u.order[q])], g.precOf(u.order[q]));
    c.desc << "; " << ENTRY[u.entry] << (u.withCons ? "" : "[plain]") << "(";
    for (size_t q = 0; q < u.order.size(); ++q) c.desc << (q ? "," : "") << "x" << u.order[q] << "=" << vf::dec(u.val[q]);
    c.desc << ")";
    for (size_t q = 0; q < u.order.size(); ++q) {
      int j = u.order[q]; if (!s.selected(j)) continue;
      LD dl, du; dist(g.box[j], u.val[q], dl, du); LD reach = (g.scheme == 2 ? 2 : 1) * (1 + std::abs(u.val[q])) * g.h;
      if (dl < reach && du < reach) nt = true;
    }
    c.nt(nt);
    ostringstream wh; wh << "after op " << op + 1 << " (" << ENTRY[u.entry] << ")";
    if (!applyUpdate(c, s, u, wh.str())) break;
  }
  c.nt(nt);
}

static struct Init { Init() { vf::G().resetHook = [] { vf::quietBpp(); vf::installAudit(); }; } } init_;
VF_MAIN("C12")
