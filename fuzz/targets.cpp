// C16 — libFuzzer targets: every string-processing / parsing entry point terminates on every byte string and either
// returns or raises bpp::Exception; no out-of-bounds access, invalid iterator, signed overflow, division trap, unbounded
// allocation or non-termination. One binary, the entry-point group is selected with env FZ_TARGET.
//
// Contract inside every target:  try { ... } catch (bpp::Exception&) {}  — a bpp::Exception is a clean rejection; ANY other
// exception type escapes and aborts (std::terminate), signals / sanitizer reports / -timeout / -malloc_limit are failures.
#include <fuzzer/FuzzedDataProvider.h>

#include <Bpp/App/ApplicationTools.h>
#include <Bpp/App/NumCalcApplicationTools.h>
#include <Bpp/Exceptions.h>
#include <Bpp/Io/BppODiscreteDistributionFormat.h>
#include <Bpp/Io/FileTools.h>
#include <Bpp/Numeric/Constraints.h>
#include <Bpp/Numeric/DataTable.h>
#include <Bpp/Numeric/Function/Functions.h>
#include <Bpp/Numeric/Function/Operators/ComputationTree.h>
#include <Bpp/Numeric/ParameterList.h>
#include <Bpp/Numeric/Prob/DiscreteDistribution.h>
#include <Bpp/Text/KeyvalTools.h>
#include <Bpp/Text/NestedStringTokenizer.h>
#include <Bpp/Text/StringTokenizer.h>
#include <Bpp/Text/TextTools.h>
#include <Bpp/Utils/AttributesTools.h>

#include <cstdio>
#include <cstdlib>
#include <cstring>
#include <fstream>
#include <set>
#include <sstream>
#include <string>
#include <unistd.h>
#include <unordered_set>
#include <vector>

using namespace bpp;
using namespace std;

namespace {
string g_target, g_statsPath, g_tmpFile;
set<string> g_known;
long g_execs = 0, g_nt = 0, g_rejected = 0, g_excluded = 0;
unordered_set<uint64_t> g_ntHashes;
vector<string> g_samples;
bool g_ntFlag = false;

uint64_t fnv(const uint8_t* p, size_t n) { uint64_t h = 1469598103934665603ULL; for (size_t i = 0; i < n; ++i) { h ^= p[i]; h *= 1099511628211ULL; } return h; }
string esc(const string& s) { string o; for (unsigned char ch : s) { if (ch == '"' || ch == '\\') { o += '\\'; o += static_cast<char>(ch); } else if (ch < 0x20 || ch >= 0x7f) { char b[8]; snprintf(b, sizeof b, "\\u%04x", ch); o += b; } else o += static_cast<char>(ch); } return o; }
void writeStats() {
  if (g_statsPath.empty()) return;
  FILE* f = fopen(g_statsPath.c_str(), "w"); if (!f) return;
  fprintf(f, "{\"target\":\"%s\",\"execs\":%ld,\"nontrivial\":%ld,\"rejected\":%ld,\"excluded_known\":%ld,\"samples\":[", g_target.c_str(), g_execs, g_nt, g_rejected, g_excluded);
  for (size_t i = 0; i < g_samples.size(); ++i) fprintf(f, "%s\"%s\"", i ? "," : "", esc(g_samples[i]).c_str());
  fprintf(f, "],\"nt_hashes\":["); bool first = true; size_t k = 0;
  for (uint64_t h : g_ntHashes) { if (++k > 200000) break; fprintf(f, "%s\"%llx\"", first ? "" : ",", static_cast<unsigned long long>(h)); first = false; }
  fprintf(f, "]}\n"); fclose(f);
}
void nt() { g_ntFlag = true; }
bool known(const char* id) { if (g_known.count(id)) { ++g_excluded; return true; } return false; }
[[noreturn]] void oracleFail(const string& what) { fprintf(stderr, "C16-ORACLE-FAILURE: %s\n", what.c_str()); writeStats(); __builtin_trap(); }

// split on the reserved byte 0x01
vector<string> splitParts(const string& s, size_t maxParts) {
  vector<string> v; string cur;
  for (char ch : s) { if (ch == '\x01' && v.size() + 1 < maxParts) { v.push_back(cur); cur.clear(); } else cur += ch; }
  v.push_back(cur); return v;
}
char pickChar(FuzzedDataProvider& f, const char* set) { size_t n = strlen(set); return set[f.ConsumeIntegralInRange<size_t>(0, n - 1)]; }

struct IdFunction : public FunctionInterface, public AbstractParametrizable {
  IdFunction() : AbstractParametrizable("") { addParameter_(new Parameter("x", 2.0)); }
  IdFunction* clone() const override { return new IdFunction(*this); }
  void setParameters(const ParameterList& pl) override { matchParametersValues(pl); }
  double getValue() const override { return getParameterValue("x"); }
};

// ------------------------------------------------------------------------------------------------ targets
void t_text_chars(FuzzedDataProvider& f) {
  char c1 = static_cast<char>(f.ConsumeIntegral<uint8_t>());
  vector<string> p = splitParts(f.ConsumeRemainingBytesAsString(), 3);
  const string& s = p[0]; string pat = p.size() > 1 ? p[1] : "a"; string rep = p.size() > 2 ? p[2] : "";
  TextTools::isEmpty(s); string u = TextTools::toUpper(s); string l = TextTools::toLower(s);
  if (u.size() != s.size() || l.size() != s.size()) oracleFail("toUpper/toLower changed the length");
  string w = TextTools::removeWhiteSpaces(s); TextTools::removeFirstWhiteSpaces(s); TextTools::removeLastWhiteSpaces(s); string sw = TextTools::removeSurroundingWhiteSpaces(s);
  if (w.size() > s.size() || sw.size() > s.size()) oracleFail("removeWhiteSpaces grew the string");
  TextTools::removeNewLines(s); TextTools::removeLastNewLines(s);
  string rc = TextTools::removeChar(s, c1); if (rc.find(c1) != string::npos) oracleFail("removeChar left the character");
  if (!pat.empty()) { size_t n = TextTools::count(s, pat); if (n > s.size()) oracleFail("count larger than the string"); if (n) nt(); }
  TextTools::startsWith(s, pat); TextTools::endsWith(s, pat); TextTools::hasSubstring(s, pat);
  if (!pat.empty()) { string t = s; TextTools::replaceAll(t, pat, rep); }
}

void t_text_numbers(FuzzedDataProvider& f) {
  char dec = pickChar(f, ".,"), sci = pickChar(f, "eE");
  string s = f.ConsumeRemainingBytesAsString();
  bool dn = TextTools::isDecimalNumber(s, dec, sci); bool di = TextTools::isDecimalInteger(s, sci);
  if (dn || di) nt();
  try { TextTools::toInt(s, sci); } catch (bpp::Exception&) { ++g_rejected; }
  try { double d = TextTools::toDouble(s, dec, sci); (void)d; } catch (bpp::Exception&) { ++g_rejected; }
  TextTools::fromString<int>(s); TextTools::fromString<double>(s); TextTools::to<int>(s); TextTools::to<double>(s); TextTools::to<unsigned>(s);
}

void t_text_blocks(FuzzedDataProvider& f) {
  size_t n1 = f.ConsumeIntegralInRange<size_t>(0, 300), n2 = f.ConsumeIntegralInRange<size_t>(0, 40);
  char b = pickChar(f, "([{<\"a"), e = pickChar(f, ")]}>\"b"), fill = pickChar(f, " .x");
  vector<string> p = splitParts(f.ConsumeRemainingBytesAsString(), 4);
  const string& s = p[0];
  if (TextTools::resizeRight(s, n1, fill).size() != n1) oracleFail("resizeRight size");
  if (TextTools::resizeLeft(s, n1, fill).size() != n1) oracleFail("resizeLeft size");
  if (n2 == 0 && known("C16-split-zero")) {} else {
    vector<string> v = TextTools::split(s, n2); string j; for (auto& x : v) { if (x.size() > n2) oracleFail("split piece longer than n"); j += x; }
    if (j != s) oracleFail("split pieces do not concatenate to the input"); if (v.size() > 1) nt();
  }
  try { string r = TextTools::removeSubstrings(s, b, e); if (r.size() > s.size()) oracleFail("removeSubstrings grew the string"); if (r.size() < s.size()) nt(); } catch (bpp::Exception&) { ++g_rejected; }
  try { vector<string> xb, xe; if (p.size() > 1 && !p[1].empty()) xb.push_back(p[1]); if (p.size() > 2 && !p[2].empty()) xe.push_back(p[2]); if (p.size() > 3 && !p[3].empty()) { xb.push_back(p[3]); }
    while (xe.size() < xb.size()) xe.push_back(string(1, e)); xe.resize(xb.size());
    TextTools::removeSubstrings(s, b, e, xb, xe); } catch (bpp::Exception&) { ++g_rejected; }
}

void t_tokenizers(FuzzedDataProvider& f) {
  bool solid = f.ConsumeBool(), allowEmpty = f.ConsumeBool(); int ops = f.ConsumeIntegralInRange<int>(0, 12);
  uint32_t script = f.ConsumeIntegral<uint32_t>();
  vector<string> p = splitParts(f.ConsumeRemainingBytesAsString(), 4);
  const string& s = p[0]; string delim = p.size() > 1 ? p[1] : ",;"; string open = p.size() > 2 ? p[2] : "("; string close = p.size() > 3 ? p[3] : ")";
  if (!(delim.empty() && solid && known("C16-solid-empty-delimiter"))) {
    try {
      StringTokenizer st(s, delim, solid, allowEmpty);
      size_t total = st.numberOfRemainingTokens(); if (total != st.getTokens().size()) oracleFail("token count != deque size");
      if (total >= 2) nt();
      if (!solid) for (auto& t : st.getTokens()) if (!delim.empty() && t.find_first_of(delim) != string::npos) oracleFail("a token contains a delimiter");
      for (int k = 0; k < ops; ++k) {
        switch ((script >> (2 * k)) & 3) {
          case 0: if (st.hasMoreToken()) { st.nextToken(); } else { try { st.nextToken(); oracleFail("nextToken past the end returned"); } catch (bpp::Exception&) {} } break;
          case 1: if (!(st.getTokens().empty() && known("C16-unparse-empty"))) st.unparseRemainingTokens(); break;
          case 2: st.removeEmptyTokens(); for (size_t q = st.getTokens().size() - st.numberOfRemainingTokens(); q < st.getTokens().size(); ++q) if (st.getToken(q).empty()) oracleFail("removeEmptyTokens left an empty token"); break;
          default: if (st.numberOfRemainingTokens() > st.getTokens().size()) oracleFail("cursor beyond the token list");
        }
      }
    } catch (bpp::Exception&) { ++g_rejected; }
  }
  if (!(delim.empty() && solid && known("C16-solid-empty-delimiter")))
  try {
    NestedStringTokenizer nst(s, open, close, delim, solid);
    size_t guard = 0; while (nst.hasMoreToken() && guard++ < 10000) nst.nextToken();
  } catch (bpp::Exception&) { ++g_rejected; }
}

void t_keyval(FuzzedDataProvider& f) {
  bool nested = f.ConsumeBool(); string split = string(1, pickChar(f, ",;= "));
  vector<string> p = splitParts(f.ConsumeRemainingBytesAsString(), 3);
  const string& s = p[0];
  try { string k, v; KeyvalTools::singleKeyval(s, k, v, p.size() > 1 && !p[1].empty() ? p[1] : "="); nt(); } catch (bpp::Exception&) { ++g_rejected; }
  map<string, string> kv;
  try { KeyvalTools::multipleKeyvals(s, kv, split, nested); if (kv.size() >= 2) nt(); } catch (bpp::Exception&) { ++g_rejected; }
  try { map<string, string> nk; if (p.size() > 2) { string k, v; try { KeyvalTools::singleKeyval(p[2], k, v); nk[k] = v; } catch (bpp::Exception&) {} } nk["a"] = "1"; KeyvalTools::changeKeyvals(s, nk, split, nested); } catch (bpp::Exception&) { ++g_rejected; }
  try { string name; map<string, string> args; KeyvalTools::parseProcedure(s, name, args); if (!args.empty()) nt(); } catch (bpp::Exception&) { ++g_rejected; }
}

bool mentionsDevice(const string& s) { return s.find("/dev") != string::npos || s.find("/proc") != string::npos || s.find("/sys") != string::npos; }
void t_attributes(FuzzedDataProvider& f) {
  char vc = pickChar(f, "$%"), vb = pickChar(f, "({"), ve = pickChar(f, ")}"); bool replace = f.ConsumeBool(); string delim = f.ConsumeBool() ? "=" : ":=";
  string data = f.ConsumeRemainingBytesAsString();
  if (mentionsDevice(data)) return;   // never let a generated path open a device or procfs file
  vector<string> parts = splitParts(data, 2);
  vector<string> lines; { string cur; for (char ch : parts[0]) { if (ch == '\n') { lines.push_back(cur); cur.clear(); } else cur += ch; } lines.push_back(cur); }
  bool contLast = false; { string last = TextTools::removeWhiteSpaces(lines.back()); contLast = !last.empty() && last.back() == '\\'; }
  map<string, string> am;
  if (!(contLast && known("C16-continuation-last-line")))
  try { am = AttributesTools::getAttributesMap(lines, delim); if (am.size() >= 2) nt(); } catch (bpp::Exception&) { ++g_rejected; }
  try { map<string, string> other; other["k"] = "v"; AttributesTools::actualizeAttributesMap(am, other, replace); } catch (bpp::Exception&) { ++g_rejected; }
  // variable substitution: bounded expansion is demanded (mutually recursive definitions must not grow without bound)
  bool cyclic = false; { for (auto& kv : am) if (kv.second.find(string(1, vc) + string(1, vb)) != string::npos) cyclic = true; }
  if (!(cyclic && known("C16-resolve-recursive")))
  try { map<string, string> am2 = am; AttributesTools::resolveVariables(am2, vc, vb, ve); } catch (bpp::Exception&) { ++g_rejected; }
  // options from a file + argv (param= chains only through our own temp file)
  { ofstream o(g_tmpFile.c_str(), ios::trunc); o << (parts.size() > 1 ? parts[1] : parts[0]); }
  if (!(contLast && known("C16-continuation-last-line")))
  try { AttributesTools::getAttributesMapFromFile(g_tmpFile, delim); } catch (bpp::Exception&) { ++g_rejected; }
  vector<string> args; args.push_back("prog");
  for (size_t i = 0; i < lines.size() && i < 8; ++i) { string a = lines[i]; if (TextTools::removeWhiteSpaces(a).rfind("param=", 0) == 0) a = "param=" + g_tmpFile; args.push_back(a); }
  vector<char*> argv; for (auto& a : args) argv.push_back(const_cast<char*>(a.c_str()));
  bool contAny = false; for (auto& a : args) { string t = TextTools::removeWhiteSpaces(a); if (!t.empty() && t.back() == '\\') contAny = true; }
  { string t = TextTools::removeWhiteSpaces(parts.size() > 1 ? parts[1] : parts[0]); if (!t.empty() && t.back() == '\\') contAny = true; }
  bool anyVar = data.find("$(") != string::npos;
  if (!((contAny && known("C16-continuation-last-line")) || (anyVar && known("C16-resolve-recursive"))))
  try { AttributesTools::parseOptions(static_cast<int>(argv.size()), argv.data()); } catch (bpp::Exception&) { ++g_rejected; }
}

void t_apptools(FuzzedDataProvider& f) {
  bool sufOpt = f.ConsumeBool(); char sep = pickChar(f, ",;|:"); int which = f.ConsumeIntegralInRange<int>(0, 9);
  vector<string> p = splitParts(f.ConsumeRemainingBytesAsString(), 4);
  map<string, string> params; params["name"] = p[0]; if (p.size() > 1) params["name.suf"] = p[1]; if (p.size() > 2) params[p[2]] = "1";
  string pattern = p.size() > 3 ? p[3] : "na*";
  vector<string> names; for (auto& kv : params) names.push_back(kv.first);
  try { ApplicationTools::matchingParameters(pattern, params); ApplicationTools::matchingParameters(pattern, names); ApplicationTools::parameterExists("name", params); ApplicationTools::parameterExists("name", names); } catch (bpp::Exception&) { ++g_rejected; }
  const string suf = ".suf";
  try {
    switch (which) {
      case 0: ApplicationTools::getDoubleParameter("name", params, 1.5, suf, sufOpt, 5); break;
      case 1: ApplicationTools::getIntParameter("name", params, 3, suf, sufOpt, 5); break;
      case 2: ApplicationTools::getStringParameter("name", params, "def", suf, sufOpt, 5); break;
      case 3: ApplicationTools::getBooleanParameter("name", params, false, suf, sufOpt, 5); break;
      case 4: ApplicationTools::getParameter<unsigned>("name", params, 1u, suf, sufOpt, 5); break;
      case 5: ApplicationTools::getVectorParameter<int>("name", params, sep, "1,2", suf, sufOpt, 5); nt(); break;
      case 6: ApplicationTools::getVectorParameter<double>("name", params, sep, "1,2", suf, sufOpt, 5); nt(); break;
      case 7: ApplicationTools::getVectorParameter<string>("name", params, sep, "a,b", suf, sufOpt, 5); break;
      case 8: if (!mentionsDevice(p[0])) ApplicationTools::getAFilePath("name", params, false, false, suf, sufOpt, "none", 5); break;
      default: ApplicationTools::getVectorOfVectorsParameter<int>("name", params, sep, "(1,2),(3)", suf, sufOpt, 5);
    }
  } catch (bpp::Exception&) { ++g_rejected; }
}

void t_paramlist_match(FuzzedDataProvider& f) {
  vector<string> p = splitParts(f.ConsumeRemainingBytesAsString(), 6);
  ParameterList pl; set<string> used;
  for (size_t i = 1; i < p.size(); ++i) if (used.insert(p[i]).second) pl.addParameter(Parameter(p[i], 0.0));
  if (!used.count("abab")) pl.addParameter(Parameter("abab", 0.0));
  bool emptyPattern = p[0].find_first_not_of('*') == string::npos;
  if (emptyPattern && known("C16-wildcard-empty-pattern")) return;
  try { vector<string> m = pl.getMatchingParameterNames(p[0]); if (!m.empty()) nt(); for (auto& n : m) if (!pl.hasParameter(n)) oracleFail("getMatchingParameterNames returned a name that is not in the list"); } catch (bpp::Exception&) { ++g_rejected; }
}

void t_filetools(FuzzedDataProvider& f) {
  char sepc = pickChar(f, "/\\:");
  string s = f.ConsumeRemainingBytesAsString();
  string fn = FileTools::getFileName(s, sepc); if (fn.size() > s.size()) oracleFail("getFileName longer than the path");
  if (!(s.find(sepc) == string::npos && known("C16-getparent-no-separator"))) { string par = FileTools::getParent(s, sepc); if (par.size() > s.size()) oracleFail("getParent longer than the path"); }
  FileTools::getExtension(s);
  if (s.find(sepc) != string::npos) nt();
  istringstream in(s); size_t guard = 0; while (in && guard++ < 5000) FileTools::getNextLine(in);
  istringstream in2(s); vector<string> v = FileTools::putStreamIntoVectorOfStrings(in2); if (v.size() > s.size() + 1) oracleFail("more lines than bytes");
}

void t_datatable(FuzzedDataProvider& f) {
  string sep = string(1, pickChar(f, "\t,; ")); bool header = f.ConsumeBool(); int rowNames = f.ConsumeIntegralInRange<int>(-1, 3); bool align = f.ConsumeBool();
  uint32_t script = f.ConsumeIntegral<uint32_t>(); size_t i1 = f.ConsumeIntegralInRange<size_t>(0, 6), i2 = f.ConsumeIntegralInRange<size_t>(0, 6);
  string s = f.ConsumeRemainingBytesAsString();
  unique_ptr<DataTable> dt;
  try { istringstream in(s); dt = DataTable::read(in, sep, header, rowNames); } catch (bpp::Exception&) { ++g_rejected; return; }
  if (!dt) return;
  nt();
  auto shape = [&]() {
    size_t nr = dt->getNumberOfRows(), nc = dt->getNumberOfColumns();
    for (size_t c = 0; c < nc; ++c) if (dt->getColumn(c).size() != nr) oracleFail("DataTable column length != number of rows");
    if (dt->hasColumnNames() && dt->getColumnNames().size() != nc) oracleFail("DataTable column names != number of columns");
    if (dt->hasRowNames() && dt->getRowNames().size() != nr) oracleFail("DataTable row names != number of rows");
  };
  shape();
  for (int k = 0; k < 6; ++k) {
    try {
      switch ((script >> (4 * k)) & 15) {
        case 0: dt->deleteRow(i1); break;
        case 1: dt->deleteColumn(i2); break;
        case 2: { vector<string> r(dt->getNumberOfColumns(), "x"); if (i1 & 1) r.push_back("y"); dt->addRow(r); break; }
        case 3: { vector<string> col(dt->getNumberOfRows(), "z"); if (i2 & 1) col.push_back("y"); dt->addColumn(col); break; }
        case 4: { vector<string> col(dt->getNumberOfRows(), "z"); dt->addColumn("newcol", col); break; }
        case 5: { vector<string> r(dt->getNumberOfColumns(), "x"); dt->addRow("newrow", r); break; }
        case 6: dt->getRow(i1); break;
        case 7: dt->getColumn(i2); break;
        case 8: (*dt)(i1, i2); break;
        case 9: { vector<string> n; for (size_t c = 0; c < dt->getNumberOfColumns() + (i1 & 1); ++c) n.push_back("c" + to_string(c % (1 + i2))); dt->setColumnNames(n); break; }
        case 10: { vector<string> n; for (size_t r = 0; r < dt->getNumberOfRows() + (i2 & 1); ++r) n.push_back("r" + to_string(r % (1 + i1))); dt->setRowNames(n); break; }
        case 11: dt->getRowName(i1); dt->getColumnName(i2); break;
        case 12: dt->getRow("r1"); dt->getColumn("c1"); dt->hasRow("r0"); dt->hasColumn("c0"); break;
        case 13: dt->deleteRow("r0"); dt->deleteColumn("c0"); break;
        case 14: { vector<string> r(dt->getNumberOfColumns(), "w"); dt->setRow(i1, r); break; }
        default: { DataTable copy(*dt); *dt = copy; }
      }
    } catch (bpp::Exception&) { ++g_rejected; }
    shape();
  }
  try { ostringstream out; DataTable::write(*dt, out, sep, align); } catch (bpp::Exception&) { ++g_rejected; }
}

// known finding C16-simple-empty-values: a 'Simple' description whose 'values' argument holds a list without any element
// ("values=()", "values=(,)", any two characters) builds a SimpleDiscreteDistribution with 0 classes, whose base class sizes
// its bounds vector with nbClasses - 1: std::length_error instead of the library's exception
bool simpleWithEmptyValues(const string& s) {
  if (s.find("Simple") == string::npos) return false;
  auto ws = [](char ch) { return isspace(static_cast<unsigned char>(ch)) != 0; };
  for (size_t q = s.find("values"); q != string::npos; q = s.find("values", q + 1)) {
    size_t d = q + 6; while (d < s.size() && ws(s[d])) ++d;
    if (d >= s.size() || s[d] != '=') continue;
    ++d;
    int depth = 0; size_t e = d;   // the value runs to the next ',' outside brackets or to the bracket that closes the argument list
    for (; e < s.size(); ++e) { char ch = s[e]; if (ch == '(') ++depth; else if (ch == ')') { if (depth == 0) break; --depth; } else if (ch == ',' && depth == 0) break; }
    size_t a = d, b = e; while (a < b && ws(s[a])) ++a; while (b > a && ws(s[b - 1])) --b;
    if (b - a >= 2 && s.find_first_not_of(',', a + 1) >= b - 1) return true;   // nothing but ',' between the first and the last character
  }
  return false;
}

void t_distformat(FuzzedDataProvider& f) {
  bool parseArgs = f.ConsumeBool();
  string s = f.ConsumeRemainingBytesAsString();
  // a class count with 5 or more digits is a legitimate request for a huge object, not a parsing problem: not generated
  { int run = 0; for (char ch : s) { run = isdigit(static_cast<unsigned char>(ch)) ? run + 1 : 0; if (run >= 5) { ++g_excluded; return; } } }
  // ... and a class count 'n=' of 100 or more is a legitimate but expensive request (discretisation is quadratic in the class count when
  // many class values coincide and have to be separated by steps of the map precision): not generated either
  for (size_t q = s.find("n="); q != string::npos; q = s.find("n=", q + 1)) {
    size_t d = q + 2; while (d < s.size() && (s[d] == ' ' || s[d] == '+')) ++d;
    size_t e = d; while (e < s.size() && isdigit(static_cast<unsigned char>(s[e]))) ++e;
    if (e - d >= 3) { ++g_excluded; return; }
  }
  if (simpleWithEmptyValues(s) && known("C16-simple-empty-values")) return;
  try {
    BppODiscreteDistributionFormat fmt(false);
    auto d = fmt.readDiscreteDistribution(s, parseArgs);
    if (d) { nt(); size_t k = d->getNumberOfCategories(); if (d->getProbabilities().size() != k || d->getCategories().size() != k) oracleFail("distribution reports inconsistent class counts"); }
  } catch (bpp::Exception&) { ++g_rejected; }
}

void t_interval_desc(FuzzedDataProvider& f) {
  string s = f.ConsumeRemainingBytesAsString();
  try { string d = s; IntervalConstraint ic(d); nt(); ic.isCorrect(0.5); ic.getDescription(); } catch (bpp::Exception&) { ++g_rejected; }
  try { IntervalConstraint ic(0, 1, true, true); string d = s; ic.readDescription(d); } catch (bpp::Exception&) { ++g_rejected; }
}

void t_numcalc(FuzzedDataProvider& f) {
  string delim = string(1, pickChar(f, ",;")), seqd = string(1, pickChar(f, "-:"));
  vector<string> p = splitParts(f.ConsumeRemainingBytesAsString(), 2);
  const string& s = p[0];
  // ranges a-b are expanded element by element: keep the expansion bounded (a huge but valid range is a legitimate huge result)
  bool hugeRange = false; { long last = 0; bool have = false; string num; for (char ch : s + ",") { if (isdigit(static_cast<unsigned char>(ch))) num += ch; else { if (!num.empty()) { long v = num.size() > 7 ? 99999999 : atol(num.c_str()); if (v > 100000 || (have && labs(v - last) > 100000)) hugeRange = true; last = v; have = true; num.clear(); } } } }
  // (integers may carry an exponent: "1e9-8" is a legitimate request for a range of 1e9 elements)
  for (size_t q = 0; q + 1 < s.size(); ++q) if (isdigit(static_cast<unsigned char>(s[q])) && (s[q + 1] == 'e' || s[q + 1] == 'E')) hugeRange = true;
  if (hugeRange) ++g_excluded;
  if (!hugeRange) try { vector<int> v = NumCalcApplicationTools::seqFromString(s, delim, seqd); if (v.size() >= 2) nt(); } catch (bpp::Exception&) { ++g_rejected; }
  // a sequence description that legitimately asks for more than 1e6 values is a huge result, not a parsing problem: not generated
  bool bigSeq = false;
  { auto num = [&](const char* key, double dflt) { size_t q = s.find(key); return q == string::npos ? dflt : strtod(s.c_str() + q + strlen(key), nullptr); };
    double from = num("from=", 0), to = num("to=", 0), step = num("step=", 1), size = num("size=", 1);
    if (s.find("seq") != string::npos && (size > 1e6 || (step > 0 && (to - from) / step > 1e6) || !(std::abs(from) < 1e300) || !(std::abs(to) < 1e300))) { bigSeq = true; ++g_excluded; } }
  if (!hugeRange && !bigSeq) try { NumCalcApplicationTools::getVector(s); } catch (bpp::Exception&) { ++g_rejected; }
  if (!hugeRange && !bigSeq) try { map<string, string> params; params["grid.number_of_parameters"] = "1"; params["grid.parameter1.name"] = "x"; params["grid.parameter1.values"] = s; NumCalcApplicationTools::getParameterGrid(params); } catch (bpp::Exception&) { ++g_rejected; }
}

void t_formula(FuzzedDataProvider& f) {
  string s = f.ConsumeRemainingBytesAsString();
  size_t depth = 0, maxDepth = 0; for (char ch : s) { if (ch == '(') maxDepth = max(maxDepth, ++depth); else if (ch == ')' && depth) --depth; }
  string stripped = TextTools::removeWhiteSpaces(s);
  if (stripped.empty() && known("C16-formula-empty")) return;
  // known finding: the recursive-descent parser uses stack frames in proportion to the number of operators of the formula
  { size_t nops = 0; for (char ch : s) if (ch == '+' || ch == '-' || ch == '*' || ch == '/' || ch == '(') ++nops; if (nops > 400 && known("C16-formula-recursion-depth")) return; }
  try {
    map<string, shared_ptr<FunctionInterface>> fn; fn["f"] = make_shared<IdFunction>();
    ComputationTree t(s, fn); nt();
    double v = t.getValue(); (void)v; t.output(); t.isAllSum();
  } catch (bpp::Exception&) { ++g_rejected; }
}

typedef void (*TargetFn)(FuzzedDataProvider&);
struct Entry { const char* name; TargetFn fn; };
const Entry TARGETS[] = {{"text_chars", t_text_chars}, {"text_numbers", t_text_numbers}, {"text_blocks", t_text_blocks}, {"tokenizers", t_tokenizers}, {"keyval", t_keyval},
                         {"attributes", t_attributes}, {"apptools", t_apptools}, {"paramlist_match", t_paramlist_match}, {"filetools", t_filetools}, {"datatable", t_datatable},
                         {"distformat", t_distformat}, {"interval_desc", t_interval_desc}, {"numcalc", t_numcalc}, {"formula", t_formula}};
TargetFn g_fn = nullptr;
shared_ptr<OutputStream> g_null(new NullOutputStream());
}  // namespace

extern "C" int LLVMFuzzerInitialize(int*, char***) {
  const char* t = getenv("FZ_TARGET"); g_target = t ? t : "";
  for (auto& e : TARGETS) if (g_target == e.name) g_fn = e.fn;
  if (!g_fn) { fprintf(stderr, "FZ_TARGET must be one of:"); for (auto& e : TARGETS) fprintf(stderr, " %s", e.name); fprintf(stderr, "\n"); exit(4); }
  if (const char* s = getenv("FZ_STATS")) g_statsPath = s;
  if (const char* k = getenv("FZ_KNOWN")) { string cur; for (const char* q = k;; ++q) { if (*q == ',' || !*q) { if (!cur.empty()) g_known.insert(cur); cur.clear(); if (!*q) break; } else cur += *q; } }
  const char* dir = getenv("FZ_TMPDIR"); g_tmpFile = string(dir ? dir : "/dev/shm") + "/c16-" + to_string(getpid()) + ".opts";
  atexit(writeStats);
  return 0;
}

extern "C" int LLVMFuzzerTestOneInput(const uint8_t* data, size_t size) {
  // reset every piece of global state the entry points read or write
  ApplicationTools::message = g_null; ApplicationTools::warning = g_null; ApplicationTools::error = g_null;
  ApplicationTools::warningLevel = 0; ApplicationTools::interactive = false; ApplicationTools::terminalWidth = 80;
  g_ntFlag = false; ++g_execs;
  FuzzedDataProvider f(data, size);
  try { g_fn(f); }
  catch (bpp::Exception&) { ++g_rejected; }
  // anything else (std::exception, ...) propagates: libFuzzer reports "uncaught exception" as a crash
  if (g_ntFlag) {
    ++g_nt; if (g_ntHashes.size() < 400000) g_ntHashes.insert(fnv(data, size));
    if (g_samples.size() < 8 && size <= 200) g_samples.push_back(string(reinterpret_cast<const char*>(data), size));
  }
  return 0;
}
